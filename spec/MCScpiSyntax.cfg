SPECIFICATION Spec
INVARIANT OnlineIsBatch
INVARIANT ConsumesOne
INVARIANT WsInsignificant
INVARIANT WsStartsGap
INVARIANT Emit
PROPERTY VerdictFinal
PROPERTY PayloadOpaque
PROPERTY IncompleteOnlyInside
CHECK_DEADLOCK FALSE
