SPECIFICATION Spec
INVARIANT OnlineIsBatch
INVARIANT ConsumesOne
INVARIANT WsInsignificant
INVARIANT WsStartsGap
INVARIANT IncompleteOnlyInside
INVARIANT Emit
PROPERTY VerdictFinal
PROPERTY PayloadOpaque
CHECK_DEADLOCK FALSE
