----------------------------- MODULE ScpiSyntax -----------------------------
(***************************************************************************)
(* The program-message-unit grammar as an ONLINE TRANSDUCER over bytes.    *)
(*                                                                         *)
(* microscpi/src/parser.rs:152-431 implements the grammar by recursive     *)
(* descent with ordered choice over a complete slice.  This module is the  *)
(* grammar itself, consumed one byte at a time: Step(s, b).  Because it    *)
(* never looks ahead and never backtracks, the properties "the verdict is  *)
(* determined by the consumed bytes" (C12), "payload bytes are opaque"     *)
(* (C08) and "white space is insignificant where allowed" (C11) are        *)
(* visible as properties of single transitions.                            *)
(*                                                                         *)
(* Phases                                                                  *)
(*   S0    before the unit (optional white space)                          *)
(*   HC    after ':' in a header, a mnemonic must follow                   *)
(*   CM0   after '*'                                                       *)
(*   MN    inside a mnemonic                                               *)
(*   WH    white space after the header (parameters may follow)            *)
(*   AQ    directly after '?'                                              *)
(*   WA    white space after '?'                                           *)
(*   AA    directly after a complete parameter                             *)
(*   AAW   white space after a parameter                                   *)
(*   AS    after ',' (a parameter must follow)                             *)
(*   AC    inside character data                                           *)
(*   SIGN INT DOT0 FRAC EXP0 EXP1 EXPD   decimal numeric data              *)
(*   AH    after '#'   RX0/RX  non-decimal digits   BL block length field  *)
(*   PL    block payload   ADQ / ASQ  quoted string payload                *)
(*   ACC   unit accepted (terminator consumed)  EMPTY  empty message       *)
(*   REJ   syntax error                                                    *)
(*                                                                         *)
(* `quirk` flags lexical peculiarities of microscpi that no property       *)
(* mentions (white space around ':' inside a header; anything but digits   *)
(* in a block length field): verdicts of flagged inputs are not compared.  *)
(***************************************************************************)
EXTENDS ScpiLex

MaxArgs == 10        \* microscpi::MAX_ARGS

S0 == [ph |-> "S0", abs |-> FALSE, com |-> FALSE, mn |-> <<>>, cur |-> <<>>, q |-> FALSE,
       args |-> <<>>, k |-> "", cnt |-> 0, len |-> 0, quirk |-> FALSE, term |-> FALSE,
       u8 |-> "S", n |-> 0]

Final(s)     == s.ph \in {"ACC", "REJ", "EMPTY"}
InPayload(s) == s.ph \in {"ADQ", "ASQ", "PL"}
Rej(s)       == [s EXCEPT !.ph = "REJ"]
Acc(s, b)    == [s EXCEPT !.ph = "ACC", !.term = (b = NL)]

\* a parameter is complete: more than MaxArgs parameters is an error, and so is a
\* quoted string that is not UTF-8
PushArg(s) ==
  IF Len(s.args) >= MaxArgs \/ (s.k = "str" /\ s.u8 # "S") THEN Rej(s)
  ELSE [s EXCEPT !.args = Append(@, [k |-> s.k, t |-> s.cur]), !.cur = <<>>, !.ph = "AA", !.u8 = "S"]

\* dispatch on the first byte of a parameter
ArgStart(s, b) ==
  CASE IsAlpha(b) -> [s EXCEPT !.ph = "AC", !.k = "chr", !.cur = <<b>>]
    [] IsDigit(b) -> [s EXCEPT !.ph = "INT", !.k = "dec", !.cur = <<b>>]
    [] b = PLUS \/ b = MINUS -> [s EXCEPT !.ph = "SIGN", !.k = "dec", !.cur = <<b>>]
    [] b = DOT -> [s EXCEPT !.ph = "DOT0", !.k = "dec", !.cur = <<b>>]
    [] b = HASH -> [s EXCEPT !.ph = "AH", !.cur = <<>>]
    [] b = DQ -> [s EXCEPT !.ph = "ADQ", !.k = "str", !.cur = <<>>, !.u8 = "S"]
    [] b = SQ -> [s EXCEPT !.ph = "ASQ", !.k = "str", !.cur = <<>>, !.u8 = "S"]
    [] OTHER -> Rej(s)

\* the byte after a complete parameter
AfterArg(s, b) ==
  IF s.ph = "REJ" THEN s
  ELSE CASE IsWs(b) -> [s EXCEPT !.ph = "AAW"]
         [] b = COMMA -> [s EXCEPT !.ph = "AS"]
         [] IsTerm(b) -> Acc(s, b)
         [] OTHER -> Rej(s)

\* the byte after a complete mnemonic (s.mn already extended)
AfterMn(s, b) ==
  CASE b = COLON /\ ~s.com -> [s EXCEPT !.ph = "HC"]
    [] b = QM -> [s EXCEPT !.ph = "AQ", !.q = TRUE]
    [] IsWs(b) -> [s EXCEPT !.ph = "WH"]
    [] IsTerm(b) -> Acc(s, b)
    [] OTHER -> Rej(s)

Step(s, b) ==
  CASE s.ph = "S0" ->
         (CASE IsWs(b) -> s
            [] b = NL -> [s EXCEPT !.ph = "EMPTY"]
            [] b = COLON -> [s EXCEPT !.ph = "HC", !.abs = TRUE]
            [] b = STAR -> [s EXCEPT !.ph = "CM0", !.com = TRUE]
            [] IsAlpha(b) -> [s EXCEPT !.ph = "MN", !.cur = <<b>>]
            [] OTHER -> Rej(s))
    [] s.ph = "HC" ->
         (CASE IsWs(b) -> [s EXCEPT !.quirk = TRUE]
            [] IsAlpha(b) -> [s EXCEPT !.ph = "MN", !.cur = <<b>>]
            [] OTHER -> Rej(s))
    [] s.ph = "CM0" ->
         IF IsAlpha(b) THEN [s EXCEPT !.ph = "MN", !.cur = <<STAR, b>>] ELSE Rej(s)
    [] s.ph = "MN" ->
         IF IsMn(b) THEN [s EXCEPT !.cur = Append(@, b)]
         ELSE AfterMn([s EXCEPT !.mn = Append(@, s.cur), !.cur = <<>>], b)
    [] s.ph = "WH" ->
         (CASE IsWs(b) -> s
            [] b = COLON /\ ~s.com -> [s EXCEPT !.ph = "HC", !.quirk = TRUE]
            [] IsTerm(b) -> Acc(s, b)
            [] OTHER -> ArgStart(s, b))
    [] s.ph = "AQ" ->
         (CASE IsWs(b) -> [s EXCEPT !.ph = "WA"]
            [] IsTerm(b) -> Acc(s, b)
            [] OTHER -> Rej(s))
    [] s.ph = "WA" ->
         (CASE IsWs(b) -> s
            [] IsTerm(b) -> Acc(s, b)
            [] OTHER -> ArgStart(s, b))
    [] s.ph = "AA" -> AfterArg(s, b)
    [] s.ph = "AAW" ->
         (CASE IsWs(b) -> s
            [] b = COMMA -> [s EXCEPT !.ph = "AS"]
            [] IsTerm(b) -> Acc(s, b)
            [] OTHER -> Rej(s))
    [] s.ph = "AS" -> IF IsWs(b) THEN s ELSE ArgStart(s, b)
    [] s.ph = "AC" ->
         IF IsMn(b) THEN [s EXCEPT !.cur = Append(@, b)] ELSE AfterArg(PushArg(s), b)
    [] s.ph = "SIGN" ->
         (CASE IsDigit(b) -> [s EXCEPT !.ph = "INT", !.cur = Append(@, b)]
            [] b = DOT -> [s EXCEPT !.ph = "DOT0", !.cur = Append(@, b)]
            [] OTHER -> Rej(s))
    [] s.ph = "INT" ->
         (CASE IsDigit(b) -> [s EXCEPT !.cur = Append(@, b)]
            [] b = DOT -> [s EXCEPT !.ph = "FRAC", !.cur = Append(@, b)]
            [] b = 69 \/ b = 101 -> [s EXCEPT !.ph = "EXP0", !.cur = Append(@, b)]
            [] OTHER -> AfterArg(PushArg(s), b))
    [] s.ph = "DOT0" ->
         IF IsDigit(b) THEN [s EXCEPT !.ph = "FRAC", !.cur = Append(@, b)] ELSE Rej(s)
    [] s.ph = "FRAC" ->
         (CASE IsDigit(b) -> [s EXCEPT !.cur = Append(@, b)]
            [] b = 69 \/ b = 101 -> [s EXCEPT !.ph = "EXP0", !.cur = Append(@, b)]
            [] OTHER -> AfterArg(PushArg(s), b))
    [] s.ph = "EXP0" ->
         (CASE IsDigit(b) -> [s EXCEPT !.ph = "EXPD", !.cur = Append(@, b)]
            [] b = PLUS \/ b = MINUS -> [s EXCEPT !.ph = "EXP1", !.cur = Append(@, b)]
            [] OTHER -> Rej(s))
    [] s.ph = "EXP1" ->
         IF IsDigit(b) THEN [s EXCEPT !.ph = "EXPD", !.cur = Append(@, b)] ELSE Rej(s)
    [] s.ph = "EXPD" ->
         IF IsDigit(b) THEN [s EXCEPT !.cur = Append(@, b)] ELSE AfterArg(PushArg(s), b)
    [] s.ph = "AH" ->
         (CASE b = 72 \/ b = 104 -> [s EXCEPT !.ph = "RX0", !.k = "hex"]
            [] b = 66 \/ b = 98 -> [s EXCEPT !.ph = "RX0", !.k = "bin"]
            [] b = 81 \/ b = 113 -> [s EXCEPT !.ph = "RX0", !.k = "oct"]
            [] b \in 49..56 -> [s EXCEPT !.ph = "BL", !.k = "blk", !.cnt = b - 48, !.len = 0]
            [] OTHER -> Rej(s))
    [] s.ph \in {"RX0", "RX"} ->
         LET ok == CASE s.k = "hex" -> IsHex(b) [] s.k = "bin" -> IsBin(b) [] OTHER -> IsOct(b)
         IN IF ok THEN [s EXCEPT !.ph = "RX", !.cur = Append(@, b)]
            ELSE IF s.ph = "RX0" THEN Rej(s) ELSE AfterArg(PushArg(s), b)
    [] s.ph = "BL" ->
         IF IsDigit(b)
         THEN LET l == s.len * 10 + (b - 48) IN
              IF s.cnt = 1
              THEN IF l = 0 THEN PushArg([s EXCEPT !.len = 0, !.cnt = 0])
                   ELSE [s EXCEPT !.ph = "PL", !.cnt = l, !.len = l]
              ELSE [s EXCEPT !.len = l, !.cnt = @ - 1]
         ELSE [Rej(s) EXCEPT !.quirk = TRUE]
    [] s.ph = "PL" ->
         IF s.cnt = 1 THEN PushArg([s EXCEPT !.cur = Append(@, b), !.cnt = 0])
         ELSE [s EXCEPT !.cur = Append(@, b), !.cnt = @ - 1]
    [] s.ph = "ADQ" -> IF b = DQ THEN PushArg(s)
                       ELSE [s EXCEPT !.cur = Append(@, b), !.u8 = Utf8Step(@, b)]
    [] s.ph = "ASQ" -> IF b = SQ THEN PushArg(s)
                       ELSE [s EXCEPT !.cur = Append(@, b), !.u8 = Utf8Step(@, b)]
    [] OTHER -> s

\* batch scan of a slice: stops at the first final phase; n = bytes consumed
RECURSIVE ScanFrom(_, _, _)
ScanFrom(s, x, i) == IF Final(s) \/ i > Len(x) THEN [s EXCEPT !.n = i - 1]
                     ELSE ScanFrom(Step(s, x[i]), x, i + 1)
ScanUnit(x) == ScanFrom(S0, x, 1)

\* verdict classes of a unit scan of a slice
\*   "acc" / "empty" / "rej" are final; "inc" = the slice ended inside the unit
ScanVerdict(s) == CASE s.ph = "ACC" -> "acc" [] s.ph = "EMPTY" -> "empty" [] s.ph = "REJ" -> "rej"
                    [] OTHER -> "inc"
=============================================================================
