----------------------------- MODULE MCScpiValues -----------------------------
(***************************************************************************)
(* Literal -> typed value (C03), bounded model.                            *)
(*                                                                         *)
(* TLC feeds the unit scanner every byte string over Sigma up to MaxLen    *)
(* after the prefix "V " and, whenever the string is one complete          *)
(* parameter token, checks:                                                *)
(*   ImplConvAllowed  the conversion the code performs (ScpiRun!ImplConv)  *)
(*                    is an outcome the property allows, for all 15 types  *)
(*   NeverOutOfRange  every allowed delivery lies inside the type's range  *)
(*                    (no wrapped / truncated / sign-flipped value is ever *)
(*                    allowed)                                             *)
(*   MiniAgree        core's from_str_radix algorithm (digit by digit,     *)
(*                    checked multiply and add/sub) on the miniature       *)
(*                    widths u3 i3 u4 i4 u8 i8, transcribed as             *)
(*                    FromStrRadix, accepts exactly the plain literals in  *)
(*                    range and yields their exact value                   *)
(*   DigitArith       digit-sequence arithmetic equals integer arithmetic  *)
(* Parameters: Sigma, MaxLen                                               *)
(***************************************************************************)
EXTENDS ScpiRun, MCScpiValuesParams, TLC

VARIABLES x
vars == <<x>>
Prefix == <<86, 32>>
Init == x = <<>>
Feed == Len(x) < MaxLen /\ \E b \in Sigma : x' = Append(x, b)
Spec == Init /\ [][Feed]_vars

U == ScanUnit(Prefix \o x \o <<NL>>)
IsTok == U.ph = "ACC" /\ Len(U.args) = 1 /\ ~U.quirk
Tok == U.args[1]
AllTypes == IntTypes \cup {"bool", "str", "blk", "f32", "f64"}

ImplConvAllowed == IsTok => \A ty \in AllTypes : ImplConv(Tok, ty) \in AllowedConv(Tok, ty)

\* value of a canonical digit sequence that fits TLC's integers
RECURSIVE NatOf(_, _, _)
NatOf(d, i, acc) == IF i > Len(d) THEN acc ELSE NatOf(d, i + 1, acc * 10 + d[i])
DeliveredInt(o) == LET t == o.v.d
                       neg == t[1] = MINUS
                       mag == DigitVals(IF neg THEN Tail(t) ELSE t)
                   IN [neg |-> neg, mag |-> mag]
NeverOutOfRange ==
  IsTok => \A ty \in IntTypes : \A o \in AllowedConv(Tok, ty) :
             o.ok => LET v == DeliveredInt(o) IN InRange(v.neg, Canon(v.mag), ty) /\ Canon(v.mag) = v.mag

MiniWidths == {<<3, FALSE>>, <<3, TRUE>>, <<4, FALSE>>, <<4, TRUE>>, <<8, FALSE>>, <<8, TRUE>>}
\* abstract: exact value of the token as a (small) integer, if it is a plain integer literal
PlainInt ==
  IF Tok.k \in {"hex", "bin", "oct"}
  THEN [ok |-> TRUE, v |-> NatOf(FromRadix(DigitVals(Tok.t), RadixOf(Tok.k)), 1, 0)]
  ELSE LET v == DecInt(Tok.t) IN
       IF v.int /\ ~v.big /\ v.plain THEN [ok |-> TRUE, v |-> IF v.neg THEN 0 - NatOf(v.mag, 1, 0) ELSE NatOf(v.mag, 1, 0)]
       ELSE [ok |-> FALSE, v |-> 0]
MiniAgree ==
  (IsTok /\ Tok.k \in {"dec", "hex", "bin", "oct"} /\ Len(Tok.t) <= 5) =>
     \A w \in MiniWidths :
        LET r == FromStrRadix(Tok.t, RadixOf(Tok.k), w[1], w[2])
            a == PlainInt
            fits == a.ok /\ a.v >= MiniMin(w[1], w[2]) /\ a.v <= MiniMax(w[1], w[2])
                    /\ ~(~w[2] /\ Tok.t[1] = MINUS)          \* "-0" into an unsigned type: free, the code rejects
        IN (r.ok <=> fits) /\ (r.ok => r.v = a.v)

DigitArith ==
  (IsTok /\ Tok.k \in {"hex", "bin", "oct"} /\ Len(Tok.t) <= 4) =>
     LET r == RadixOf(Tok.k)
         vals == DigitVals(Tok.t)
         RECURSIVE Native(_, _)
         Native(i, acc) == IF i > Len(vals) THEN acc ELSE Native(i + 1, acc * r + vals[i])
     IN NatOf(FromRadix(vals, r), 1, 0) = Native(1, 0)
=============================================================================
