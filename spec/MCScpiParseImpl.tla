--------------------------- MODULE MCScpiParseImpl ---------------------------
(***************************************************************************)
(* The implementation-shaped parser (ScpiParseImpl, a transcription of      *)
(* parser.rs) against the grammar (ScpiSyntax), on every byte string of     *)
(* MCScpiSyntax's enumeration, from every start node:                       *)
(*   ImplRefines   ParseImpl's verdict - class, consumed length, query and  *)
(*                 terminator flags, parameter tokens, node and parent - is *)
(*                 one the grammar pins (inputs flagged quirk excluded)     *)
(* With LegacyChoice = TRUE (the pre-repair ordered choice in `argument`)   *)
(* the invariant fails: an unterminated quoted string followed by a newline *)
(* is reported as an error instead of Incomplete (defect D4).               *)
(* Parameters: those of MCScpiSyntax plus LegacyChoice                      *)
(***************************************************************************)
EXTENDS MCScpiSyntax, ScpiParseImpl

ImplRefines ==
  \A k \in 1..Len(Starts) :
     LET allowed == VerdictsP(Starts[k]) IN
     allowed = {} \/ ParseImpl(Cfg.trie, Starts[k], x, LegacyChoice) \in allowed
=============================================================================
