SPECIFICATION Spec
INVARIANT Bounded
INVARIANT MarkerOnlyAtBack
PROPERTY OlderIntact
PROPERTY OverflowAtBack
PROPERTY FifoPop
CHECK_DEADLOCK FALSE
