SPECIFICATION Spec
INVARIANT Bounded
PROPERTY AppendWhenRoom
PROPERTY OlderIntact
PROPERTY OverflowAtBack
PROPERTY FifoPop
CHECK_DEADLOCK FALSE
