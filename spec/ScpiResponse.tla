---------------------------- MODULE ScpiResponse ----------------------------
(***************************************************************************)
(* IEEE 488.2 response data (property C04).                                *)
(*                                                                         *)
(* A response value is one of                                              *)
(*   [t |-> "int",  d |-> ASCII decimal text, optional '-']                *)
(*   [t |-> "bool", v |-> BOOLEAN]                                         *)
(*   [t |-> "str",  b |-> bytes]        quoted string                      *)
(*   [t |-> "chr",  b |-> bytes]        bare character data                *)
(*   [t |-> "blk",  b |-> bytes]        definite-length block              *)
(*   [t |-> "tup",  items |-> <<values>>]   tuples, slices, vectors        *)
(*   [t |-> "unit"]                     handlers that return no value      *)
(*   [t |-> "flt", ty, bits]            f32 / f64 (syntax only, see below) *)
(*                                                                         *)
(* ABSTRACT: Decodes(bytes, v) - the RELATION "these bytes are response    *)
(* data that decode to v" (several byte strings may decode to one value).  *)
(* IMPLEMENTATION-SHAPED: Encode(v) - what response.rs:78-331 writes.      *)
(* MCScpiResponse checks Decodes(Encode(v), v) and injectivity.            *)
(***************************************************************************)
EXTENDS ScpiLex, Integers

RECURSIVE DoubleQ(_)
DoubleQ(b) == IF b = <<>> THEN <<>>
              ELSE (IF b[1] = DQ THEN <<DQ, DQ>> ELSE <<b[1]>>) \o DoubleQ(Tail(b))

RECURSIVE NatAscii(_)
NatAscii(n) == IF n < 10 THEN <<n + 48>> ELSE NatAscii(n \div 10) \o <<(n % 10) + 48>>

RECURSIVE JoinComma(_)
JoinComma(ss) == IF ss = <<>> THEN <<>> ELSE IF Len(ss) = 1 THEN ss[1]
                 ELSE ss[1] \o <<COMMA>> \o JoinComma(Tail(ss))

\* LegacyQuotes = TRUE: the pre-repair behaviour (embedded '"' not doubled), kept so that
\* MCScpiResponse can show the model sees the defect.
RECURSIVE EncodeL(_, _)
EncodeL(v, legacy) ==
  CASE v.t = "int"  -> v.d
    [] v.t = "bool" -> IF v.v THEN <<49>> ELSE <<48>>
    [] v.t = "str"  -> <<DQ>> \o (IF legacy THEN v.b ELSE DoubleQ(v.b)) \o <<DQ>>
    [] v.t = "chr"  -> v.b
    [] v.t = "blk"  -> IF v.b = <<>> THEN <<HASH, 49, 48>>
                       ELSE LET l == NatAscii(Len(v.b)) IN <<HASH, Len(l) + 48>> \o l \o v.b
    [] v.t = "tup"  -> JoinComma([i \in 1..Len(v.items) |-> EncodeL(v.items[i], legacy)])
    [] v.t = "unit" -> <<>>
    [] v.t = "flt"  -> <<48>>      \* floats: only the syntax is specified here, see below
Encode(v) == EncodeL(v, FALSE)

\* ------------------------------------------------------------- decoding
\* MatchAt(v, x, i): set of indices j such that x[i..j-1] is response data decoding to v
RECURSIVE DigitsEnd(_, _)
DigitsEnd(x, i) == IF i <= Len(x) /\ IsDigit(x[i]) THEN DigitsEnd(x, i + 1) ELSE i
RECURSIVE StripZeros(_)
StripZeros(d) == IF Len(d) > 1 /\ d[1] = 48 THEN StripZeros(Tail(d)) ELSE d
\* canonical form of NR1 text: sign dropped for zero and '+', leading zeros dropped
CanonNr1(t) == LET neg == t # <<>> /\ t[1] = MINUS
                   body == IF t # <<>> /\ t[1] \in {PLUS, MINUS} THEN Tail(t) ELSE t
                   m == StripZeros(body)
               IN IF neg /\ m # <<48>> THEN <<MINUS>> \o m ELSE m

\* end index of a quoted string starting at x[i] = DQ, with its decoded payload; 0 if malformed
RECURSIVE StrScan(_, _, _)
StrScan(x, i, acc) ==
  IF i > Len(x) THEN [j |-> 0, b |-> acc]
  ELSE IF x[i] # DQ THEN StrScan(x, i + 1, Append(acc, x[i]))
  ELSE IF i + 1 <= Len(x) /\ x[i + 1] = DQ THEN StrScan(x, i + 2, Append(acc, DQ))
  ELSE [j |-> i + 1, b |-> acc]

RECURSIVE FloatEnd(_, _)
FloatEnd(x, i) == IF i <= Len(x) /\ (IsDigit(x[i]) \/ x[i] \in {PLUS, MINUS, DOT, 69, 101}) THEN FloatEnd(x, i + 1) ELSE i
RECURSIVE MatchAt(_, _, _)
RECURSIVE MatchItems(_, _, _, _)
MatchItems(items, k, x, i) ==       \* items k..Len matched from i, separated by commas
  IF k > Len(items) THEN {i}
  ELSE LET ends == MatchAt(items[k], x, i) IN
       IF k = Len(items) THEN ends
       ELSE UNION {IF j <= Len(x) /\ x[j] = COMMA THEN MatchItems(items, k + 1, x, j + 1) ELSE {} : j \in ends}
MatchAt(v, x, i) ==
  CASE v.t = "int" ->
         LET s == IF i <= Len(x) /\ x[i] \in {PLUS, MINUS} THEN i + 1 ELSE i
             j == DigitsEnd(x, s)
         IN IF j > s /\ CanonNr1(SubSeq(x, i, j - 1)) = CanonNr1(v.d) THEN {j} ELSE {}
    [] v.t = "bool" -> IF i <= Len(x) /\ x[i] = (IF v.v THEN 49 ELSE 48) THEN {i + 1} ELSE {}
    [] v.t = "str" ->
         IF i <= Len(x) /\ x[i] = DQ
         THEN LET r == StrScan(x, i + 1, <<>>) IN IF r.j # 0 /\ r.b = v.b THEN {r.j} ELSE {}
         ELSE {}
    [] v.t = "chr" -> IF i + Len(v.b) - 1 <= Len(x) /\ SubSeq(x, i, i + Len(v.b) - 1) = v.b THEN {i + Len(v.b)} ELSE {}
    [] v.t = "blk" ->
         IF i + 1 <= Len(x) /\ x[i] = HASH /\ x[i + 1] \in 49..57
         THEN LET nd == x[i + 1] - 48
                  ls == i + 2
              IN IF ls + nd - 1 <= Len(x) /\ \A k \in ls..(ls + nd - 1) : IsDigit(x[k])
                 THEN LET lt == StripZeros(SubSeq(x, ls, ls + nd - 1))
                          ps == ls + nd
                      IN IF lt = NatAscii(Len(v.b)) /\ ps + Len(v.b) - 1 <= Len(x)
                            /\ SubSeq(x, ps, ps + Len(v.b) - 1) = v.b
                         THEN {ps + Len(v.b)} ELSE {}
                 ELSE {}
         ELSE {}
    [] v.t = "tup" -> MatchItems(v.items, 1, x, i)
    [] v.t = "flt" ->
         \* binary floating point is outside TLC's reach: the specification pins the syntax
         \* (a decimal real) here; that its correctly rounded value is bit-identical to the
         \* returned float (NaN / infinity sentinels included) is decided by the harness's
         \* exact-rational evaluation of ScpiFloat's definition (bin/vlib/floats.py)
         LET j == FloatEnd(x, i) IN IF j > i THEN {j} ELSE {}
    [] v.t = "unit" -> {i}
Decodes(x, v) == (Len(x) + 1) \in MatchAt(v, x, 1)
=============================================================================
