---------------------------- MODULE MCScpiProcess ----------------------------
(***************************************************************************)
(* Implementation-shaped model of Interface::process                       *)
(* (microscpi/src/interface.rs:104-158), one action per step of the loop:  *)
(*                                                                         *)
(*   Read     adapter.read(&mut cmd_buf[read_offset..]) - the ENVIRONMENT  *)
(*            chooses how many bytes (0..free space) and which bytes       *)
(*            (ReadStart, one ReadByte per delivered byte, ReadEnd)        *)
(*   Scan     next terminator among the newly read bytes: run on           *)
(*            cmd_buf[proc_offset..=terminator], update the offsets;       *)
(*            no terminator left: compact, test for overflow, read again   *)
(*   Write    adapter.write(&res_buf)      (only if run produced output)   *)
(*   Flush    adapter.flush(); res_buf.clear()                             *)
(*   EnvFail  the transport returns an error from read / write / flush     *)
(*                                                                         *)
(* It runs in lock-step with the IDEAL byte-at-a-time semantics            *)
(* (IdealByte: what process does when every read delivers one byte):       *)
(* `lag` is the queue of events the ideal has produced and the             *)
(* implementation not yet, so states merge and nothing unbounded is kept.  *)
(* Invariants:                                                             *)
(*   OffsetsOk   0 <= proc <= rd <= rend <= N, and a read is offered space *)
(*   NoDiverge   the implementation's events are always the head of `lag`  *)
(*               (C07: same events for every chunking as for byte-wise)    *)
(*   Answered    at every read nothing is owed: lag empty, res_buf empty   *)
(*               (C10: answers before it reads on)                         *)
(*   SameCarry   at every read the unconsumed tail and the path equal the  *)
(*               ideal's (C07/C08: carry-over across reads)                *)
(*   DoneIsError process ends only with the transport's error (C10)        *)
(*   Progress    (liveness, config MCScpiProcessLive) under weak fairness  *)
(*               of its own steps process always comes back to a read      *)
(*               (C05: no loop without consuming input)                    *)
(* Legacy switch "overflow" restores the pre-repair order of the overflow  *)
(* test and the compaction (negative control).                             *)
(* Parameters: IfaceName, Sigma (stream alphabet), N, MaxLen, Legacy       *)
(***************************************************************************)
EXTENDS Ifaces, MCScpiProcessParams, TLC

VARIABLES buf, proc, rd, rend, pc, hdr, res, ipend, ipath, lag, total, bad, result
vars == <<buf, proc, rd, rend, pc, hdr, res, ipend, ipath, lag, total, bad, result>>

Cfg == [CfgOf(IfaceName) EXCEPT !.legacy = Legacy]
Run(path, x) == ImplRun(Cfg, <<>>, path, N, x)
Suffix(x, k) == SubSeq(x, Len(x) - k + 1, Len(x))
RECURSIVE OutBytes(_)
OutBytes(evs) == IF evs = <<>> THEN <<>>
                 ELSE (IF evs[1].e = "out" THEN evs[1].b ELSE <<>>) \o OutBytes(Tail(evs))

\* ideal: one byte per read
IdealByte(st, b) ==
  LET p == Append(st.pend, b) IN
  IF b = NL
  THEN LET r == Run(st.path, p)
           keep == IF r.rem >= N THEN <<>> ELSE Suffix(p, r.rem)
       IN [pend |-> keep, path |-> IF keep = <<>> THEN <<>> ELSE r.path, lag |-> st.lag \o r.evs]
  ELSE IF Len(p) >= N THEN [pend |-> <<>>, path |-> <<>>, lag |-> st.lag]
       ELSE [pend |-> p, path |-> st.path, lag |-> st.lag]
RECURSIVE IdealFeed(_, _, _)
IdealFeed(st, bs, i) == IF i > Len(bs) THEN st ELSE IdealFeed(IdealByte(st, bs[i]), bs, i + 1)

Init == /\ buf = <<>> /\ proc = 0 /\ rd = 0 /\ rend = 0 /\ pc = "read" /\ hdr = <<>> /\ res = <<>>
        /\ ipend = <<>> /\ ipath = <<>> /\ lag = <<>> /\ total = 0 /\ bad = FALSE /\ result = "none"

\* adapter.read: the environment delivers any number of bytes (0 .. free space), any bytes.
\* One read is modelled as ReadStart, then one ReadByte per delivered byte, then ReadEnd, so that
\* TLC never has to build the set of all chunks; nothing of the implementation runs in between.
ReadStart == /\ pc = "read" /\ ~bad /\ total < MaxLen
             /\ pc' = "reading" /\ rend' = rd /\ buf' = SubSeq(buf, 1, rd)
             /\ UNCHANGED <<proc, rd, hdr, res, ipend, ipath, lag, total, bad, result>>
ReadByte == /\ pc = "reading" /\ rend < N /\ total < MaxLen
            /\ \E b \in Sigma :
                 LET st == IdealByte([pend |-> ipend, path |-> ipath, lag |-> lag], b) IN
                 /\ buf' = Append(buf, b) /\ rend' = rend + 1 /\ total' = total + 1
                 /\ ipend' = st.pend /\ ipath' = st.path /\ lag' = st.lag
            /\ UNCHANGED <<proc, rd, pc, hdr, res, bad, result>>
ReadEnd == /\ pc = "reading" /\ pc' = "scan"
           /\ UNCHANGED <<buf, proc, rd, rend, hdr, res, ipend, ipath, lag, total, bad, result>>

Scan ==
  /\ pc = "scan"
  /\ LET t == FirstNL(buf, rd + 1) IN
     IF t # 0 /\ t <= rend
     THEN \* a terminator among the new bytes: run on [proc_offset ..= terminator]
          LET data == SubSeq(buf, proc + 1, t)
              r == Run(hdr, data)
              good == IsPrefixOf(r.evs, lag)
              out == OutBytes(r.evs)
          IN /\ bad' = (bad \/ ~good)
             /\ lag' = IF good THEN Drop(lag, Len(r.evs)) ELSE lag
             /\ IF r.rem # 0
                THEN /\ proc' = proc + Len(data) - r.rem /\ hdr' = r.path
                     \* the search for the next terminator resumes AFTER this one; legacy "spin" (a seeded
                     \* mutant) resumes at the unfinished unit and finds the same newline again, forever
                     /\ rd' = IF "spin" \in Legacy THEN proc' ELSE t
                ELSE proc' = t /\ rd' = t /\ hdr' = <<>>
             /\ res' = out
             /\ pc' = IF out # <<>> THEN "write" ELSE "scan"
             /\ UNCHANGED <<buf, rend, ipend, ipath, total, result>>
     ELSE \* no terminator left: read_offset = read_end, compaction / overflow
          /\ IF "overflow" \in Legacy
             THEN IF rend >= N THEN rd' = 0 /\ proc' = 0 /\ buf' = <<>> /\ hdr' = <<>>
                  ELSE IF proc > 0 THEN buf' = SubSeq(buf, proc + 1, rend) /\ rd' = rend - proc /\ proc' = 0 /\ hdr' = hdr
                  ELSE rd' = rend /\ UNCHANGED <<buf, proc, hdr>>
             ELSE LET keep == SubSeq(buf, proc + 1, rend) IN
                  IF Len(keep) >= N THEN rd' = 0 /\ proc' = 0 /\ buf' = <<>> /\ hdr' = <<>>
                  ELSE buf' = keep /\ rd' = Len(keep) /\ proc' = 0 /\ hdr' = hdr
          /\ pc' = "read" /\ UNCHANGED <<rend, res, ipend, ipath, lag, total, bad, result>>

Write == /\ pc = "write" /\ pc' = "flush"
         /\ UNCHANGED <<buf, proc, rd, rend, hdr, res, ipend, ipath, lag, total, bad, result>>
Flush == /\ pc = "flush" /\ pc' = "scan" /\ res' = <<>>
         /\ UNCHANGED <<buf, proc, rd, rend, hdr, ipend, ipath, lag, total, bad, result>>
\* the transport fails: process returns that error at once
EnvFail == /\ pc \in {"read", "reading", "write", "flush"} /\ ModelFaults /\ (pc = "reading" => rend = rd)
           /\ pc' = "done" /\ result' = "error"
           /\ UNCHANGED <<buf, proc, rd, rend, hdr, res, ipend, ipath, lag, total, bad>>

Next == ReadStart \/ ReadByte \/ ReadEnd \/ Scan \/ Write \/ Flush \/ EnvFail
Spec == Init /\ [][Next]_vars

\* C05, liveness: process never loops without consuming input - from every state it reaches, within
\* finitely many of its own steps, a point where it asks the transport for more (or has ended)
FairSpec == Spec /\ WF_vars(Scan \/ Write \/ Flush \/ ReadEnd)
Progress == []<>(pc \in {"read", "done"} \/ (pc = "reading" /\ rend < N /\ total < MaxLen))

OffsetsOk == /\ 0 <= proc /\ proc <= rd /\ rd <= rend /\ rend <= N
             /\ (pc = "read" => rd < N)
NoDiverge == ~bad
Answered == pc = "read" => (lag = <<>> /\ res = <<>>)
SameCarry == pc = "read" => (SubSeq(buf, proc + 1, rd) = ipend /\ hdr = ipath)
DoneIsError == (pc = "done" => result = "error") /\ result # "ok"
=============================================================================
