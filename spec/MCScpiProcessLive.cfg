SPECIFICATION FairSpec
INVARIANT OffsetsOk
PROPERTY Progress
CHECK_DEADLOCK FALSE
