SPECIFICATION Spec
INVARIANT RoundTrip
INVARIANT Injective
CHECK_DEADLOCK FALSE
