SPECIFICATION Spec
INVARIANT Refines
INVARIANT HistoryIndep
INVARIANT RootAtEnd
INVARIANT Emit
CHECK_DEADLOCK FALSE
