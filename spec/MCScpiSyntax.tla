----------------------------- MODULE MCScpiSyntax -----------------------------
(***************************************************************************)
(* The unit scanner driven one byte per action (C12, C08, C11, C05 core).  *)
(*                                                                         *)
(* State: x = the bytes fed so far, s = the scanner state after them.      *)
(* Feed(b) extends x by one byte of Sigma - so every edge of the state     *)
(* graph is a (prefix, extension) pair and C12's statements are action     *)
(* properties:                                                             *)
(*   VerdictFinal    once accepted / rejected / empty, further bytes       *)
(*                   change nothing (only the remainder grows)             *)
(*   ConsumesOne     a final verdict has consumed at least one byte        *)
(*   OnlineIsBatch   the state equals the batch scan of x (the meaning of  *)
(*                   x does not depend on how it was delivered)            *)
(*   PayloadOpaque   inside a string or block payload no byte except the   *)
(*                   own closing quote / the last counted byte leaves the  *)
(*                   payload, and every byte is stored verbatim (C08)      *)
(*   WsInsignificant where white space is allowed, each of the 32 bytes    *)
(*                   leaves the state unchanged (C11)                      *)
(*   IncompleteOnlyInside  a newline that does not end the unit was        *)
(*                   consumed as payload (or is a flagged quirk)           *)
(* Every x is printed with the verdict the specification pins for          *)
(* parser::parse from every start node (REPLAY lines).                     *)
(* Parameters: IfaceName, Sigma, MaxLen, Prefix (bytes fed before x),      *)
(*             Starts (start paths), EmitReplay                            *)
(***************************************************************************)
EXTENDS Ifaces, MCScpiSyntaxParams, Json, TLC

VARIABLES x, s
vars == <<x, s>>

Cfg == CfgOf(IfaceName)
RECURSIVE FeedAll(_, _, _)
FeedAll(st, bs, i) == IF i > Len(bs) THEN st ELSE FeedAll(Step(st, bs[i]), bs, i + 1)

Init == x = Prefix /\ s = FeedAll(S0, Prefix, 1)
Feed == /\ Len(x) < Len(Prefix) + MaxLen
        /\ \E b \in Sigma : x' = Append(x, b) /\ s' = IF Final(s) THEN s ELSE Step(s, b)
Next == Feed
Spec == Init /\ [][Next]_vars

\* ------------------------------------------------------------ properties
OnlineIsBatch == LET t == ScanUnit(x) IN [t EXCEPT !.n = 0] = [s EXCEPT !.n = 0]
ConsumesOne == Final(ScanUnit(x)) => ScanUnit(x).n >= 1
VerdictFinal == [][Final(s) => s' = s]_vars
PayloadOpaque ==
  [][(s.ph \in {"ADQ", "ASQ", "PL"}) =>
       LET b == x'[Len(x')] IN
       \/ /\ s'.ph = s.ph /\ s'.cur = Append(s.cur, b)                     \* stored verbatim, still inside
       \/ /\ s.ph = "ADQ" /\ b = DQ /\ s'.ph \in {"AA", "REJ"}             \* own closing quote
       \/ /\ s.ph = "ASQ" /\ b = SQ /\ s'.ph \in {"AA", "REJ"}
       \/ /\ s.ph = "PL" /\ s.cnt = 1 /\ s'.ph \in {"AA", "REJ"}           \* last counted byte
          /\ (s'.ph = "AA" => Last(s'.args).t = Append(s.cur, b))]_vars
WsInsignificant ==
  (s.ph \in {"S0", "WH", "WA", "AAW", "AS"}) => \A w \in WsBytes : Step(s, w) = s
WsStartsGap ==     \* the first white-space byte of a gap moves to the gap phase, whichever byte it is
  /\ (s.ph = "AA" => \A w \in WsBytes : Step(s, w).ph = "AAW")
  /\ (s.ph = "AQ" => \A w \in WsBytes : Step(s, w).ph = "WA")
IncompleteOnlyInside ==     \* a newline that does not end the unit was consumed as payload
  [][(x'[Len(x')] = NL /\ ~Final(s) /\ ~Final(s')) => (InPayload(s) \/ s.ph = "BL")]_vars

\* ----------------------------------------- what parser::parse must answer
NodeSig(p) == [cmd |-> TrieSlot(Cfg.trie, p, FALSE) - 1, qry |-> TrieSlot(Cfg.trie, p, TRUE) - 1,
               ch |-> TrieChildren(Cfg.trie, p)]
\* verdicts allowed for parse(root, start, x): a set of records
Verdicts(start) ==
  LET t == ScanUnit(x)
      walkDone == HeaderWalkOk(Cfg, start, t)
      full == FullPath(start, t)
  IN IF t.quirk THEN {}                                 \* not compared
     ELSE IF ~walkDone THEN {[v |-> "err"]}
     ELSE CASE t.ph = "ACC" ->
                 {[v |-> "acc", n |-> t.n, q |-> t.q, term |-> t.term,
                   args |-> t.args, com |-> t.com, node |-> NodeSig(full),
                   hdr |-> IF t.com THEN NodeSig(<<>>) ELSE NodeSig(Front(full))]}
            [] t.ph = "EMPTY" -> {[v |-> "empty", n |-> t.n]}
            [] t.ph = "REJ" -> {[v |-> "err"]}
            [] OTHER -> IF x # <<>> /\ Last(x) = NL THEN {[v |-> "inc"]} ELSE {[v |-> "inc"], [v |-> "err"]}

\* the same verdicts with nodes given as spelled paths (for the implementation-shaped parser)
VerdictsP(start) ==
  LET t == ScanUnit(x)
      walkDone == HeaderWalkOk(Cfg, start, t)
      full == FullPath(start, t)
  IN IF t.quirk THEN {}
     ELSE IF ~walkDone THEN {[v |-> "err"]}
     ELSE CASE t.ph = "ACC" ->
                 {[v |-> "acc", n |-> t.n, q |-> t.q, term |-> t.term, args |-> t.args, com |-> t.com,
                   node |-> full, hdr |-> IF t.com THEN <<>> ELSE Front(full)]}
            [] t.ph = "EMPTY" -> {[v |-> "empty", n |-> t.n]}
            [] t.ph = "REJ" -> {[v |-> "err"]}
            [] OTHER -> IF x # <<>> /\ Last(x) = NL THEN {[v |-> "inc"]} ELSE {[v |-> "inc"], [v |-> "err"]}

Emit == EmitReplay =>
  PrintT(<<"REPLAY", ToJson([x |-> x, exp |-> [i \in 1..Len(Starts) |-> Verdicts(Starts[i])]])>>)
=============================================================================
