------------------------------ MODULE ScpiFloat ------------------------------
(***************************************************************************)
(* DEFINITION of the correct rounding of a decimal literal to a binary     *)
(* floating-point format (the float halves of C03 and C04).                *)
(*                                                                         *)
(* A format is (p, emin, emax): p significand bits, normal exponents       *)
(* emin..emax, gradual underflow.  Its non-negative finite numbers are     *)
(*      M * 2^E   with  0 <= M < 2^p  and  emin-p+1 <= E <= emax-p+1.      *)
(* The literal  m * 10^e  (m a natural number, e an integer) denotes an    *)
(* exact rational v.  Round(v) is the finite number nearest to v; when two *)
(* are equally near, the one whose normalised significand is even; and v   *)
(* rounds to infinity iff it is at least as near to 2^(emax+1) as to the   *)
(* largest finite number (IEEE 754 roundTiesToEven).                       *)
(*                                                                         *)
(* TLC's integers are 32-bit and TLA+ has no floats, so TLC can evaluate   *)
(* this definition only on MINIATURE formats (MCScpiFloat: p = 3, 4 with a *)
(* tiny exponent range).  For f32/f64 the same definition is evaluated     *)
(* with unbounded rationals by bin/vlib/floats.py, and that evaluator is   *)
(* replayed against TLC's table for the miniature formats on every run of  *)
(* the C03/C04 checks, which ties it to this text.                         *)
(***************************************************************************)
EXTENDS Integers, FiniteSets

RECURSIVE Pow(_, _)
Pow(b, n) == IF n = 0 THEN 1 ELSE b * Pow(b, n - 1)
Abs(x) == IF x < 0 THEN 0 - x ELSE x

\* everything is scaled by 2^(p-1-emin) so that all finite numbers are integers
Scale(p, emin) == Pow(2, p - 1 - emin)
\* the finite numbers, scaled: M * 2^(E - (emin-p+1))
Finite(p, emin, emax) ==
  {M * Pow(2, k) : M \in 0..(Pow(2, p) - 1), k \in 0..(emax - emin)}
InfVal(p, emin, emax) == Pow(2, emax + 1) * Scale(p, emin)       \* 2^(emax+1), scaled
\* normalised significand of a scaled finite number x > 0: divide out factors of two while
\* the significand would still need more than p bits
RECURSIVE Sig(_, _)
Sig(x, p) == IF x >= Pow(2, p) THEN Sig(x \div 2, p) ELSE x
IsEven(x, p) == Sig(x, p) % 2 = 0

\* v = num/den (both positive integers, already scaled): is candidate a at least as good as b?
Closer(num, den, a, b) == Abs(num - a * den) < Abs(num - b * den)
Tie(num, den, a, b) == Abs(num - a * den) = Abs(num - b * den)

\* the correctly rounded result: a scaled finite value, or "inf" (represented by InfVal)
Round(num, den, p, emin, emax) ==
  LET C == Finite(p, emin, emax) \cup {InfVal(p, emin, emax)}
      best == {a \in C : \A b \in C : Closer(num, den, a, b) \/ Tie(num, den, a, b)}
  IN IF Cardinality(best) = 1 THEN CHOOSE a \in best : TRUE
     ELSE CHOOSE a \in best : a = InfVal(p, emin, emax) \/ (a \in Finite(p, emin, emax) /\ IsEven(a, p)
                                                            /\ InfVal(p, emin, emax) \notin best)

\* the literal m * 10^e as scaled num/den
LitNum(m, e, p, emin) == m * (IF e >= 0 THEN Pow(10, e) ELSE 1) * Scale(p, emin)
LitDen(e) == IF e >= 0 THEN 1 ELSE Pow(10, 0 - e)
RoundLit(m, e, p, emin, emax) == Round(LitNum(m, e, p, emin), LitDen(e), p, emin, emax)
=============================================================================
