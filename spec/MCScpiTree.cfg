SPECIFICATION Spec
INVARIANT BuildIffUnambiguous
INVARIANT AtMostOne
INVARIANT TrieRefinesSpellings
INVARIANT StdIffRequested
INVARIANT Emit
CHECK_DEADLOCK FALSE
