SPECIFICATION Spec
INVARIANT TreeOk
INVARIANT Emit
CHECK_DEADLOCK FALSE
