------------------------------ MODULE ScpiTree ------------------------------
(***************************************************************************)
(* Command declarations and header resolution.                             *)
(*                                                                         *)
(* ABSTRACT layer (what property C01/C14 say): a declaration is a sequence *)
(* of parts, each with a declared spelling and an "optional" flag, plus a  *)
(* kind (command/query).  A header path selects declaration d iff each     *)
(* mnemonic equals, ignoring case, the short or the long form of the       *)
(* corresponding part, optional parts present or omitted.                  *)
(*                                                                         *)
(* IMPLEMENTATION-SHAPED layer (microscpi-macros/src/{command,tree}.rs):   *)
(* every declaration is expanded into the SEQUENCE of its spelled paths    *)
(* (Command::paths), each path is inserted into a trie whose leaves have a *)
(* command slot and a query slot (Tree::insert_at); an occupied slot makes *)
(* the macro fail (=> the program does not compile).                       *)
(*                                                                         *)
(* A declaration is a record                                               *)
(*   [parts |-> <<[nm |-> bytes, opt |-> BOOLEAN], ...>>, q |-> BOOLEAN,   *)
(*    args |-> <<type names>>, beh |-> behaviour record]                   *)
(* Declaration i of a sequence `decls` has the handler id i-1 (the macro   *)
(* numbers handlers from 0 in declaration order).                          *)
(***************************************************************************)
EXTENDS ScpiLex, FiniteSets, TLC

\* ---------------------------------------------------------------- abstract
Short(nm) == SelectSeq(nm, LAMBDA b : ~IsLow(b))    \* declared spelling minus lower-case letters
Long(nm)  == Upper(nm)

RECURSIVE PathsOf(_)
PathsOf(parts) ==
  IF parts = <<>> THEN {<<>>}
  ELSE LET p == parts[1]
           heads == {<<Long(p.nm)>>, <<Short(p.nm)>>} \cup (IF p.opt THEN {<<>>} ELSE {})
       IN {h \o r : h \in heads, r \in PathsOf(Tail(parts))}

Spellings(d) == PathsOf(d.parts)

\* the declarations a header (upper-cased path, query flag) selects
Dispatch(decls, path, q) ==
  {i \in DOMAIN decls : decls[i].q = q /\ path \in Spellings(decls[i])}

\* is `path` a proper or improper prefix of some declared spelling (a trie node)?
IsNodePath(decls, path) ==
  \E i \in DOMAIN decls : \E sp \in Spellings(decls[i]) : IsPrefixOf(path, sp)

\* two different handlers reachable by one spelling of the same kind (C14)
Ambiguous(decls) ==
  \E i, j \in DOMAIN decls :
     i < j /\ decls[i].q = decls[j].q /\ Spellings(decls[i]) \cap Spellings(decls[j]) # {}

\* ------------------------------------------------- implementation-shaped
\* Command::paths(): sequence of paths in the macro's generation order.
\* DedupPaths = TRUE is the repaired behaviour (a declaration's own expansions that
\* coincide, e.g. "[A]:[A]", are inserted once); FALSE is the legacy behaviour.
RECURSIVE DedupSeq(_, _)
DedupSeq(s, seen) == IF s = <<>> THEN <<>>
                     ELSE IF s[1] \in seen THEN DedupSeq(Tail(s), seen)
                     ELSE <<s[1]>> \o DedupSeq(Tail(s), seen \cup {s[1]})

RECURSIVE ExpandPart(_, _)
ExpandPart(paths, p) ==     \* for every path so far: long, short (if different), omitted
  IF paths = <<>> THEN <<>>
  ELSE LET x == paths[1]
           l == <<Append(x, Long(p.nm))>>
           s == IF Short(p.nm) # Long(p.nm) THEN <<Append(x, Short(p.nm))>> ELSE <<>>
           o == IF p.opt THEN <<x>> ELSE <<>>
       IN l \o s \o o \o ExpandPart(Tail(paths), p)

RECURSIVE PathSeqFrom(_, _, _)
PathSeqFrom(paths, parts, dedup) ==
  IF parts = <<>> THEN paths
  ELSE LET e == ExpandPart(paths, parts[1])
       IN PathSeqFrom(IF dedup THEN DedupSeq(e, {}) ELSE e, Tail(parts), dedup)
PathSeq(d, dedup) == PathSeqFrom(<< <<>> >>, d.parts, dedup)

\* trie: function  node path -> [cmd |-> id+1 or 0, qry |-> id+1 or 0]
EmptyTrie == (<<>> :> [cmd |-> 0, qry |-> 0])
PrefixesOf(p) == {SubSeq(p, 1, k) : k \in 0..Len(p)}

InsertAt(t, path, id, q) ==      \* Tree::insert_at; id is 1-based here
  LET dom == DOMAIN t \cup PrefixesOf(path)
      t1 == [n \in dom |-> IF n \in DOMAIN t THEN t[n] ELSE [cmd |-> 0, qry |-> 0]]
      occupied == IF q THEN t1[path].qry # 0 ELSE t1[path].cmd # 0
  IN IF occupied THEN [ok |-> FALSE, t |-> t1]
     ELSE [ok |-> TRUE,
           t |-> [t1 EXCEPT ![path] = IF q THEN [@ EXCEPT !.qry = id] ELSE [@ EXCEPT !.cmd = id]]]

RECURSIVE InsertPaths(_, _, _, _)
InsertPaths(r, ps, id, q) ==
  IF ps = <<>> \/ ~r.ok THEN r
  ELSE InsertPaths(InsertAt(r.t, ps[1], id, q), Tail(ps), id, q)

RECURSIVE BuildFrom(_, _, _, _)
BuildFrom(r, decls, i, dedup) ==
  IF i > Len(decls) \/ ~r.ok THEN r
  ELSE BuildFrom(InsertPaths(r, PathSeq(decls[i], dedup), i, decls[i].q), decls, i + 1, dedup)
Build(decls, dedup) == BuildFrom([ok |-> TRUE, t |-> EmptyTrie], decls, 1, dedup)

\* Node::child + slot selection (tree.rs:22-29, interface.rs:32-37)
TrieHasNode(t, path) == path \in DOMAIN t
TrieSlot(t, path, q) == IF path \in DOMAIN t THEN (IF q THEN t[path].qry ELSE t[path].cmd) ELSE 0
TrieChildren(t, path) == {n[Len(path) + 1] : n \in {m \in DOMAIN t : Len(m) = Len(path) + 1 /\ IsPrefixOf(path, m)}}

\* ---------------------------------------------------- standard commands
B(s) == s  \* readability: byte sequences are written as tuples of ints
Part(nm, opt) == [nm |-> nm, opt |-> opt]
\* "SYSTem:VERSion?", "SYSTem:ERRor:[NEXT]?", "SYSTem:ERRor:COUNt?" (lib.rs:190-223)
SYSTem  == <<83, 89, 83, 84, 101, 109>>
VERSion == <<86, 69, 82, 83, 105, 111, 110>>
ERRor   == <<69, 82, 82, 111, 114>>
NEXT    == <<78, 69, 88, 84>>
COUNt   == <<67, 79, 85, 78, 116>>
StdVersionDecl == [parts |-> <<Part(SYSTem, FALSE), Part(VERSion, FALSE)>>, q |-> TRUE, args |-> <<>>,
                   beh |-> [k |-> "version"]]
ErrNextDecl    == [parts |-> <<Part(SYSTem, FALSE), Part(ERRor, FALSE), Part(NEXT, TRUE)>>, q |-> TRUE,
                   args |-> <<>>, beh |-> [k |-> "errnext"]]
ErrCountDecl   == [parts |-> <<Part(SYSTem, FALSE), Part(ERRor, FALSE), Part(COUNt, FALSE)>>, q |-> TRUE,
                   args |-> <<>>, beh |-> [k |-> "errcount"]]
\* attrs: [std |-> BOOLEAN, err |-> BOOLEAN]; standard declarations are appended after
\* the user's, VERSion first (lib.rs:190-223)
WithStd(decls, attrs) ==
  decls \o (IF attrs.std THEN <<StdVersionDecl>> ELSE <<>>)
        \o (IF attrs.err THEN <<ErrNextDecl, ErrCountDecl>> ELSE <<>>)
=============================================================================
