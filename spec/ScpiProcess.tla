----------------------------- MODULE ScpiProcess -----------------------------
(***************************************************************************)
(* Interface::process: streaming a byte stream through a command buffer of *)
(* N bytes (properties C05, C07, C08, C10; C06 and C02 through a stream).  *)
(*                                                                         *)
(* ABSTRACT - ProcAccepts(cfg, N, obs): the relation the properties allow  *)
(* between the bytes a transport delivered and everything observed at the  *)
(* Adapter, the handlers and the error handler:                            *)
(*   - the stream is cut into program messages by ideal scanning; the      *)
(*     handler/error events are those of the messages, in order (MsgFrom   *)
(*     of ScpiRun: each message from the root path);                       *)
(*   - bytes written to the transport before any read are exactly the      *)
(*     responses (each followed by NL) of the queries executed so far, and *)
(*     the last write has been flushed                      (C10, C04);    *)
(*   - when a read is issued, every message completed by the bytes         *)
(*     delivered so far has been executed and answered      (C10);         *)
(*   - process ends only with the transport's own error, at once (C10);    *)
(*   - reads are offered 1..N bytes of space                (C05).         *)
(* Territory the properties do not pin is FREE (counted by the caller): a  *)
(* message longer than N, an unterminated tail, a faulty message with a    *)
(* newline in a payload, a response that may not fit N bytes, quirks.      *)
(* The relation is the same for every chunking of the stream, which is     *)
(* what C07 states.                                                        *)
(*                                                                         *)
(* IMPLEMENTATION-SHAPED - the read/scan/run/write/compact loop of         *)
(* microscpi/src/interface.rs:104-158 is the state machine of module       *)
(* MCScpiProcess (one action per step), built on ScpiRun!ImplRun.          *)
(*                                                                         *)
(* Adapter events (harness JSON):                                          *)
(*   [e |-> "read", cap |-> space offered, b |-> bytes delivered]          *)
(*   [e |-> "write", b |-> bytes]  [e |-> "aflush"]                        *)
(*   [e |-> "eof", cap]      the script's stream is exhausted: read fails  *)
(*   [e |-> "fail", op, tok] an injected transport error                   *)
(*   [e |-> "end", res, tok] process returned                              *)
(***************************************************************************)
EXTENDS ScpiRun

IsReadLike(ev) == ev.e \in {"read", "eof"} \/ (ev.e = "fail" /\ ev.op = "read")

\* the stream delivered by all reads
RECURSIVE StreamOf(_, _)
StreamOf(obs, i) == IF i > Len(obs) THEN <<>>
                    ELSE (IF obs[i].e = "read" THEN obs[i].b ELSE <<>>) \o StreamOf(obs, i + 1)
\* rs[p] = number of bytes received strictly before event p (built in one pass)
RECURSIVE RecvSeqR(_, _, _, _)
RecvSeqR(obs, p, acc, out) ==
  IF p > Len(obs) THEN out
  ELSE RecvSeqR(obs, p + 1, acc + (IF obs[p].e = "read" THEN Len(obs[p].b) ELSE 0), Append(out, acc))
RecvSeq(obs) == RecvSeqR(obs, 1, 0, <<>>)

\* handler / error events with their position in obs
RECURSIVE SemOf(_, _)
SemOf(obs, i) ==
  IF i > Len(obs) THEN <<>>
  ELSE (CASE obs[i].e = "call" -> <<[e |-> "call", id |-> obs[i].id, args |-> obs[i].args, ix |-> i]>>
          [] obs[i].e = "err" -> <<[e |-> "err", n |-> obs[i].n, txt |-> obs[i].txt, ix |-> i]>>
          [] OTHER -> <<>>) \o SemOf(obs, i + 1)

\* x[i..] is r1 NL r2 NL ... with r_k decoding to vs[k]
RECURSIVE MatchLines(_, _, _, _)
MatchLines(vs, k, x, i) ==
  IF k > Len(vs) THEN i = Len(x) + 1
  ELSE \E j \in MatchAt(vs[k].v, x, i) : j <= Len(x) /\ x[j] = NL /\ MatchLines(vs, k + 1, x, j + 1)

\* first read-like event at or after index p0 issued when at least T bytes had been
\* delivered (0 if none)
RECURSIVE DeadlineFrom(_, _, _, _)
DeadlineFrom(obs, rs, T, p) ==
  IF p > Len(obs) THEN 0
  ELSE IF IsReadLike(obs[p]) /\ rs[p] >= T THEN p ELSE DeadlineFrom(obs, rs, T, p + 1)

\* obs index of the sem event consumed last by a matcher state (0 if none)
LastIx(sem, st) == IF st.i = 1 THEN 0 ELSE sem[st.i - 1].ix

\* messages from stream offset pos on; S = matcher states (ScpiRun); returns the states
\* after the last complete message, marked free where pinned territory ends
RECURSIVE ProcMsgs(_, _, _, _, _, _, _, _, _)
ProcMsgs(cfg, N, S, X, pos, obs, sem, rs, p0) ==
  IF S = {} THEN {}
  ELSE IF \E st \in S : st.free THEN {CHOOSE st \in S : st.free}
  ELSE IF pos > Len(X) THEN S
  ELSE LET m == MsgScan(X, pos) IN
       IF m.kind \in {"partial", "free"} \/ m.len - pos + 1 > N THEN {Freed(CHOOSE st \in S : TRUE)}
       ELSE LET dl == DeadlineFrom(obs, rs, m.len, p0)
                after == UNION {MsgFrom(cfg, [st EXCEPT !.room = N, !.dl = dl], <<>>, m.units, 1, sem, m.emb, "proc") : st \in S}
                \* C10: everything this message caused precedes the next read
                timely == {st \in after : st.free \/ dl = 0 \/ LastIx(sem, st) < dl}
                cut == Last(obs).e = "end" /\ Last(obs).res = "injected" /\ dl = 0
            IN \* a transport error ends process at once: messages not yet started stay unexecuted
               IF cut /\ \A st \in S : st.i = Len(sem) + 1 THEN S
               ELSE IF cut /\ timely = {} THEN {Freed(CHOOSE st \in S : TRUE)}
               ELSE ProcMsgs(cfg, N, timely, X, m.len + 1, obs, sem, rs, IF dl = 0 THEN p0 ELSE dl)

\* C10/C04: at every read-like event the transport has received exactly the responses of
\* the queries executed before it, and the last write has been flushed.  One pass over the
\* events: W = bytes written since the last read-like event, k = first owed response not
\* yet accounted for, fl = no write since the last flush.
RECURSIVE OwedUpTo(_, _, _)
OwedUpTo(owed, k, p) == IF k <= Len(owed) /\ owed[k].at < p THEN OwedUpTo(owed, k + 1, p) ELSE k
RECURSIVE WritesWalk(_, _, _, _, _, _)
WritesWalk(obs, owed, p, W, k, fl) ==
  IF p > Len(obs) THEN TRUE
  ELSE LET ev == obs[p] IN
       CASE ev.e = "write" -> WritesWalk(obs, owed, p + 1, W \o ev.b, k, fl /\ ev.b = <<>>)
         [] ev.e = "aflush" -> WritesWalk(obs, owed, p + 1, W, k, TRUE)
         [] IsReadLike(ev) ->
              LET k2 == OwedUpTo(owed, k, p) IN
              /\ fl
              /\ MatchLines(SubSeq(owed, k, k2 - 1), 1, W, 1)
              /\ WritesWalk(obs, owed, p + 1, <<>>, k2, TRUE)
         [] OTHER -> WritesWalk(obs, owed, p + 1, W, k, fl)
WritesOk(obs, st) == WritesWalk(obs, st.owed, 1, <<>>, 1, TRUE)

\* C10: ends only by returning the transport's error, at once; C05: sane reads, no panic
EndOk(N, obs) ==
  /\ obs # <<>>
  /\ \A i \in 1..Len(obs) : obs[i].e \notin {"panic", "after_end", "stuck"}
  /\ \A i \in 1..Len(obs) : obs[i].e = "read" => (obs[i].cap >= 1 /\ obs[i].cap <= N /\ Len(obs[i].b) <= obs[i].cap)
  /\ LET z == Last(obs) IN
     /\ z.e = "end" /\ z.res \in {"eof", "injected"} /\ Len(obs) >= 2
     /\ LET y == obs[Len(obs) - 1] IN
        IF z.res = "eof" THEN y.e = "eof" ELSE y.e = "fail" /\ y.tok = z.tok
     /\ \A i \in 1..(Len(obs) - 2) : obs[i].e \notin {"eof", "fail", "end"}

ProcEnd(cfg, N, obs) ==
  LET X == StreamOf(obs, 1)
      sem == SemOf(obs, 1)
      S == ProcMsgs(cfg, N, {St0(<<>>, N)}, X, 1, obs, sem, RecvSeq(obs), 1)
  IN {st \in S : st.free \/ (WritesOk(obs, st) /\ st.i = Len(sem) + 1)}

ProcAccepts(cfg, N, obs) == EndOk(N, obs) /\ ProcEnd(cfg, N, obs) # {}
=============================================================================
