SPECIFICATION Spec
INVARIANT ImplConvAllowed
INVARIANT NeverOutOfRange
INVARIANT MiniAgree
INVARIANT DigitArith
CHECK_DEADLOCK FALSE
