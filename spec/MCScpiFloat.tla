----------------------------- MODULE MCScpiFloat -----------------------------
(***************************************************************************)
(* ScpiFloat on miniature formats: for every literal m * 10^e with         *)
(* m in 0..MaxM, e in -MaxE..MaxE and every format of Formats              *)
(*   Unique     exactly one result (ties are always broken)                *)
(*   Exact      a representable value rounds to itself                     *)
(*   Nearest    no finite number is strictly nearer than the result        *)
(*   Monotone   m <= m' implies Round(m) <= Round(m') (same e)             *)
(* and prints the table (REPLAY) that bin/vlib/floats.py must reproduce.   *)
(***************************************************************************)
EXTENDS ScpiFloat, MCScpiFloatParams, Json, TLC

VARIABLES m, e, f
vars == <<m, e, f>>
Init == m \in 0..MaxM /\ e \in (0 - MaxE)..MaxE /\ f \in Formats
Next == UNCHANGED vars
Spec == Init /\ [][Next]_vars

R(mm) == RoundLit(mm, e, f.p, f.emin, f.emax)
Num(mm) == LitNum(mm, e, f.p, f.emin)
Den == LitDen(e)
C == Finite(f.p, f.emin, f.emax) \cup {InfVal(f.p, f.emin, f.emax)}

Unique ==
  LET best == {a \in C : \A b \in C : Closer(Num(m), Den, a, b) \/ Tie(Num(m), Den, a, b)} IN
  Cardinality(best) \in {1, 2} /\ R(m) \in best
Exact == (Den = 1 /\ Num(m) \in Finite(f.p, f.emin, f.emax)) => R(m) = Num(m)
Nearest == \A b \in Finite(f.p, f.emin, f.emax) : ~Closer(Num(m), Den, b, R(m))
Monotone == m < MaxM => R(m) <= R(m + 1)
Emit == PrintT(<<"REPLAY", ToJson([m |-> m, e |-> e, p |-> f.p, emin |-> f.emin, emax |-> f.emax,
                                    inf |-> R(m) = InfVal(f.p, f.emin, f.emax), r |-> R(m)])>>)
=============================================================================
