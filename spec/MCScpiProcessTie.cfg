SPECIFICATION TSpec
INVARIANT Tied
CHECK_DEADLOCK FALSE
