SPECIFICATION Spec
INVARIANT OffsetsOk
INVARIANT NoDiverge
INVARIANT Answered
INVARIANT SameCarry
INVARIANT DoneIsError
CHECK_DEADLOCK FALSE
