-------------------------- MODULE ErrorQueueProof --------------------------
(***************************************************************************)
(* TLAPS proofs about the error queue for an ARBITRARY capacity K >= 1 and *)
(* an arbitrary set of errors (C09's core, beyond TLC's bounds K <= 4):    *)
(*   THEOREM Safety       Spec => [](TypeOK /\ Len(q) <= K)                *)
(*   THEOREM PushKeepsOld a push never changes entries 1 .. Len(q)-1       *)
(*   THEOREM PushFullMarks a push on a full queue leaves the length and    *)
(*                        turns exactly the newest entry into -350         *)
(*   THEOREM PopIsFifo    a pop removes exactly the oldest entry           *)
(* The operators are those of module ErrorQueue, restated here with K as a *)
(* CONSTANT (ErrorQueue passes K as an argument).                          *)
(***************************************************************************)
EXTENDS Integers, Sequences, TLAPS

CONSTANTS K, Err, Overflow
ASSUME KPos == K \in Nat /\ K >= 1
ASSUME OvfIsErr == Overflow \in Err

VARIABLE q

QPush(qq, e) == IF Len(qq) < K THEN Append(qq, e) ELSE [qq EXCEPT ![K] = Overflow]
QPop(qq) == IF qq = <<>> THEN qq ELSE Tail(qq)

Init == q = <<>>
Push(e) == q' = QPush(q, e)
Pop == q' = QPop(q)
Next == (\E e \in Err : Push(e)) \/ Pop
Spec == Init /\ [][Next]_q

TypeOK == q \in Seq(Err)
Inv == TypeOK /\ Len(q) <= K

LEMMA InitInv == Init => Inv
  BY KPos DEF Init, Inv, TypeOK

LEMMA PushInv == ASSUME Inv, NEW e \in Err, Push(e) PROVE Inv'
  <1>1. CASE Len(q) < K
    <2>1. q' = Append(q, e) BY <1>1 DEF Push, QPush
    <2>2. q' \in Seq(Err) /\ Len(q') = Len(q) + 1 BY <2>1 DEF Inv, TypeOK
    <2> QED BY <2>2, <1>1, KPos DEF Inv, TypeOK
  <1>2. CASE ~(Len(q) < K)
    <2>1. q' = [q EXCEPT ![K] = Overflow] BY <1>2 DEF Push, QPush
    <2>2. Len(q) = K BY <1>2, KPos DEF Inv, TypeOK
    <2>3. q' \in Seq(Err) /\ Len(q') = Len(q) BY <2>1, <2>2, OvfIsErr, KPos DEF Inv, TypeOK
    <2> QED BY <2>3, <2>2 DEF Inv, TypeOK
  <1> QED BY <1>1, <1>2

LEMMA PopInv == ASSUME Inv, Pop PROVE Inv'
  <1>1. CASE q = <<>>
    BY <1>1 DEF Pop, QPop, Inv, TypeOK
  <1>2. CASE q # <<>>
    <2>1. q' = Tail(q) BY <1>2 DEF Pop, QPop
    <2>2. Len(q) >= 1 BY <1>2 DEF Inv, TypeOK
    <2>3. q' \in Seq(Err) /\ Len(q') = Len(q) - 1 BY <2>1, <2>2 DEF Inv, TypeOK
    <2> QED BY <2>3, KPos DEF Inv, TypeOK
  <1> QED BY <1>1, <1>2

THEOREM Safety == Spec => []Inv
  <1>1. Inv /\ [Next]_q => Inv'
    <2> SUFFICES ASSUME Inv, [Next]_q PROVE Inv' OBVIOUS
    <2>1. CASE \E e \in Err : Push(e) BY <2>1, PushInv
    <2>2. CASE Pop BY <2>2, PopInv
    <2>3. CASE UNCHANGED q BY <2>3 DEF Inv, TypeOK
    <2> QED BY <2>1, <2>2, <2>3 DEF Next
  <1> QED BY InitInv, <1>1, PTL DEF Spec

THEOREM PushKeepsOld ==
  ASSUME Inv, NEW e \in Err, Push(e)
  PROVE \A i \in 1..(Len(q) - 1) : q'[i] = q[i]
  <1>1. CASE Len(q) < K
    BY <1>1 DEF Push, QPush, Inv, TypeOK
  <1>2. CASE ~(Len(q) < K)
    <2>1. Len(q) = K BY <1>2, KPos DEF Inv, TypeOK
    <2> QED BY <1>2, <2>1, KPos DEF Push, QPush, Inv, TypeOK
  <1> QED BY <1>1, <1>2

THEOREM PushFullMarks ==
  ASSUME Inv, NEW e \in Err, Push(e), Len(q) = K
  PROVE Len(q') = K /\ q'[K] = Overflow
  BY KPos DEF Push, QPush, Inv, TypeOK

THEOREM PushRoomAppends ==
  ASSUME Inv, NEW e \in Err, Push(e), Len(q) < K
  PROVE q' = Append(q, e)
  BY DEF Push, QPush

THEOREM PopIsFifo ==
  ASSUME Inv, Pop, q # <<>>
  PROVE q' = Tail(q)
  BY DEF Pop, QPop
=============================================================================
