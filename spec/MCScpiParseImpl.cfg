SPECIFICATION Spec
INVARIANT ImplRefines
CHECK_DEADLOCK FALSE
