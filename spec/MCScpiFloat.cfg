SPECIFICATION Spec
INVARIANT Unique
INVARIANT Exact
INVARIANT Nearest
INVARIANT Monotone
INVARIANT Emit
CHECK_DEADLOCK FALSE
