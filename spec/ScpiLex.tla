------------------------------ MODULE ScpiLex ------------------------------
(***************************************************************************)
(* Byte classes of the IEEE 488.2 / SCPI program-message syntax as         *)
(* microscpi reads it (microscpi/src/parser.rs:113-149).  All text is a    *)
(* sequence of bytes 0..255: TLC strings are atomic, so nothing here is a  *)
(* TLA+ string.                                                            *)
(***************************************************************************)
EXTENDS Naturals, Sequences

NL == 10      CR == 13     SP == 32
SEMI == 59    COLON == 58  COMMA == 44  QM == 63   STAR == 42  HASH == 35
DQ == 34      SQ == 39     PLUS == 43   MINUS == 45  DOT == 46  USCORE == 95

Byte == 0..255

\* white space per 488.2 7.4.1.2: every byte 0..32 except NL
IsWs(b)    == b \in (0..9) \cup (11..32)
WsBytes    == (0..9) \cup (11..32)
IsUp(b)    == b \in 65..90
IsLow(b)   == b \in 97..122
IsAlpha(b) == IsUp(b) \/ IsLow(b)
IsDigit(b) == b \in 48..57
IsMn(b)    == IsAlpha(b) \/ IsDigit(b) \/ b = USCORE      \* mnemonic continuation
IsHex(b)   == IsDigit(b) \/ b \in 65..70 \/ b \in 97..102
IsOct(b)   == b \in 48..55
IsBin(b)   == b \in 48..49
IsTerm(b)  == b = NL \/ b = SEMI

UpB(b)  == IF IsLow(b) THEN b - 32 ELSE b
LowB(b) == IF IsUp(b) THEN b + 32 ELSE b
Upper(s) == [i \in 1..Len(s) |-> UpB(s[i])]
Lower(s) == [i \in 1..Len(s) |-> LowB(s[i])]
UpperAll(p) == [i \in 1..Len(p) |-> Upper(p[i])]          \* a path of mnemonics

Front(s) == SubSeq(s, 1, Len(s) - 1)
Last(s)  == s[Len(s)]
Drop(s, n) == SubSeq(s, n + 1, Len(s))
Take(s, n) == SubSeq(s, 1, n)
IsPrefixOf(a, b) == Len(a) <= Len(b) /\ SubSeq(b, 1, Len(a)) = a

\* position of the first NL at or after index i, 0 if none
RECURSIVE FirstNL(_, _)
FirstNL(x, i) == IF i > Len(x) THEN 0 ELSE IF x[i] = NL THEN i ELSE FirstNL(x, i + 1)

(***************************************************************************)
(* UTF-8 well-formedness (Rust's core::str::from_utf8): no overlong forms, *)
(* no surrogates, nothing above U+10FFFF.  A DFA over bytes.               *)
(***************************************************************************)
Utf8Step(st, b) ==
  CASE st = "S" ->
         (CASE b < 128 -> "S"
            [] b \in 194..223 -> "C1"
            [] b = 224 -> "E0"
            [] b \in (225..236) \cup {238, 239} -> "C2"
            [] b = 237 -> "ED"
            [] b = 240 -> "F0"
            [] b \in 241..243 -> "C3"
            [] b = 244 -> "F4"
            [] OTHER -> "BAD")
    [] st = "C1" -> IF b \in 128..191 THEN "S" ELSE "BAD"
    [] st = "C2" -> IF b \in 128..191 THEN "C1" ELSE "BAD"
    [] st = "C3" -> IF b \in 128..191 THEN "C2" ELSE "BAD"
    [] st = "E0" -> IF b \in 160..191 THEN "C1" ELSE "BAD"
    [] st = "ED" -> IF b \in 128..159 THEN "C1" ELSE "BAD"
    [] st = "F0" -> IF b \in 144..191 THEN "C2" ELSE "BAD"
    [] st = "F4" -> IF b \in 128..143 THEN "C2" ELSE "BAD"
    [] OTHER -> "BAD"

RECURSIVE Utf8Run(_, _, _)
Utf8Run(st, s, i) == IF i > Len(s) THEN st ELSE Utf8Run(Utf8Step(st, s[i]), s, i + 1)
IsUtf8(s) == Utf8Run("S", s, 1) = "S"
=============================================================================
