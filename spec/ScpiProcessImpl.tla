--------------------------- MODULE ScpiProcessImpl ---------------------------
(***************************************************************************)
(* IMPLEMENTATION-SHAPED conformance of Interface::process                 *)
(* (microscpi/src/interface.rs).  The same loop as MCScpiProcess (Read,    *)
(* Scan, Write, Flush, compaction, overflow reset), written as a function  *)
(* of the reads a recorded session received, so that a recorded session    *)
(* can be compared with it step by step:                                   *)
(*   - the room every read was offered (cap = N - read_offset): the        *)
(*     buffer bookkeeping itself, which no response ever shows;            *)
(*   - the handlers invoked and the errors reported, in order (ImplRun);   *)
(*   - exactly one write + flush per run_from call that produced output.   *)
(* This layer pins MORE than the properties do (what happens on buffer     *)
(* overflow, which error number a syntax error gets is left to ImplRun's   *)
(* wild cards, ...).  A mismatch is therefore reported as IMPL-DRIFT (the  *)
(* implementation-shaped model no longer describes the code, so what TLC   *)
(* established on MCScpiProcess no longer transfers), never as a violation *)
(* of a property.  Argument values and response bytes are not compared     *)
(* here - the abstract relation ProcAccepts judges them.                   *)
(***************************************************************************)
EXTENDS ScpiRun

PSt0 == [buf |-> <<>>, proc |-> 0, rd |-> 0, hdr |-> <<>>, q |-> <<>>, unk |-> FALSE]

RECURSIVE Skel(_, _)
Skel(evs, i) ==
  IF i > Len(evs) THEN <<>>
  ELSE (CASE evs[i].e = "call" -> <<[e |-> "call", id |-> evs[i].id]>>
          [] evs[i].e = "err" -> <<[e |-> "err", n |-> evs[i].n]>>
          [] OTHER -> <<>>) \o Skel(evs, i + 1)
HasOut(evs) == \E i \in 1..Len(evs) : evs[i].e = "out" /\ evs[i].b # <<>>

\* the while-let loop after one read, then compaction / overflow reset
RECURSIVE PScan(_, _, _, _)
PScan(cfg, N, st, acc) ==
  LET t == FirstNL(st.buf, st.rd + 1) IN
  IF t # 0
  THEN LET data == SubSeq(st.buf, st.proc + 1, t)
           r == ImplRun(cfg, st.q, st.hdr, N, data)
           quirky == MsgScan(data, 1).kind = "free"
           \* ImplRun leaves the number of a syntax error open (a wild card); once such an entry sits in an error
           \* queue, the length of a later SYSTem:ERRor? response is not known here either
           wild == cfg.K > 0 /\ \E i \in 1..Len(r.evs) : r.evs[i].e = "err" /\ r.evs[i].n = ANYN
           ev == Skel(r.evs, 1) \o (IF HasOut(r.evs) THEN <<[e |-> "write"], [e |-> "aflush"]>> ELSE <<>>)
           st2 == [st EXCEPT !.q = r.q, !.unk = @ \/ r.sloppy \/ quirky \/ wild, !.rd = t,
                             !.proc = IF r.rem # 0 THEN st.proc + Len(data) - r.rem ELSE t,
                             !.hdr = IF r.rem # 0 THEN r.path ELSE <<>>]
       IN PScan(cfg, N, st2, acc \o ev)
  ELSE LET keep == SubSeq(st.buf, st.proc + 1, Len(st.buf)) IN
       [st |-> IF Len(keep) >= N THEN [st EXCEPT !.buf = <<>>, !.proc = 0, !.rd = 0, !.hdr = <<>>]
               ELSE [st EXCEPT !.buf = keep, !.proc = 0, !.rd = Len(keep)],
        evs |-> acc]

EvIs(exp, ev) ==
  /\ exp.e = ev.e
  /\ (exp.e = "call" => exp.id = ev.id)
  /\ (exp.e = "err" => (exp.n = ANYN \/ exp.n = ev.n))

\* walk a recorded session: "ok", "drift", or "unknown" (territory this layer does not pin either:
\* a response that does not fit, a lexical quirk)
RECURSIVE PWalk(_, _, _, _, _, _)
PWalk(cfg, N, st, obs, i, exp) ==
  IF st.unk THEN "unknown"
  ELSE IF i > Len(obs) THEN (IF exp = <<>> THEN "ok" ELSE "drift")
  ELSE LET ev == obs[i] IN
    CASE ev.e = "read" ->
           IF exp # <<>> \/ ev.cap # N - st.rd THEN "drift"
           ELSE LET res == PScan(cfg, N, [st EXCEPT !.buf = @ \o ev.b], <<>>) IN
                PWalk(cfg, N, res.st, obs, i + 1, res.evs)
      [] ev.e = "eof" -> IF exp # <<>> \/ ev.cap # N - st.rd THEN "drift" ELSE PWalk(cfg, N, st, obs, i + 1, exp)
      [] ev.e \in {"call", "err", "write", "aflush"} ->
           IF exp = <<>> \/ ~EvIs(exp[1], ev) THEN "drift" ELSE PWalk(cfg, N, st, obs, i + 1, Tail(exp))
      [] ev.e = "fail" ->
           \* the transport failed this call: it is the call the model makes next, and nothing follows it
           IF (ev.op = "read" /\ exp = <<>>) \/ (ev.op = "write" /\ exp # <<>> /\ exp[1].e = "write")
              \/ (ev.op = "aflush" /\ exp # <<>> /\ exp[1].e = "aflush")
           THEN (IF i + 1 = Len(obs) /\ obs[i + 1].e = "end" THEN "ok" ELSE "drift")
           ELSE "drift"
      [] ev.e = "end" -> IF exp = <<>> /\ i = Len(obs) THEN "ok" ELSE "drift"
      [] OTHER -> PWalk(cfg, N, st, obs, i + 1, exp)

ImplProcVerdict(cfg, N, obs) ==
  IF cfg.trie = EmptyTrie THEN "unknown" ELSE PWalk(cfg, N, PSt0, obs, 1, <<>>)
=============================================================================
