-------------------------- MODULE MCScpiProcessTie --------------------------
(***************************************************************************)
(* Ties the two implementation-shaped descriptions of Interface::process   *)
(* together: MCScpiProcess (a state machine, one action per step of the    *)
(* loop - what TLC explores and what OffsetsOk / NoDiverge / Answered /    *)
(* SameCarry / Progress are established on) and ScpiProcessImpl (the same  *)
(* loop as a function of the reads - what recorded sessions of the real    *)
(* code are compared with, step by step, in TraceScpi).                    *)
(* `reads` is a history variable: the chunks delivered so far.  Whenever   *)
(* the state machine is back at a read, folding ScpiProcessImpl over that  *)
(* history must give the machine's state (kept bytes, offsets, path) and   *)
(* the events ScpiProcessImpl expects must be the ones the machine         *)
(* produced (`done`: calls / errors in order, one write per answered       *)
(* run_from).  So: code ~ ScpiProcessImpl (trace validation) and           *)
(* ScpiProcessImpl ~ MCScpiProcess (this module), hence what TLC shows on  *)
(* MCScpiProcess speaks about the code.                                    *)
(***************************************************************************)
EXTENDS MCScpiProcess, ScpiProcessImpl

VARIABLES reads, done
tvars == <<vars, reads, done>>

SkelOf(evs, out) == Skel(evs, 1) \o (IF out # <<>> THEN <<[e |-> "write"], [e |-> "aflush"]>> ELSE <<>>)

TInit == Init /\ reads = <<>> /\ done = <<>>
TNext ==
  \* an empty read changes nothing in either description: the history keeps at most one trailing empty chunk
  \/ ReadStart /\ reads' = (IF reads # <<>> /\ reads[Len(reads)] = <<>> THEN reads ELSE Append(reads, <<>>)) /\ UNCHANGED done
  \/ ReadByte /\ reads' = [reads EXCEPT ![Len(reads)] = Append(@, buf'[Len(buf')])] /\ UNCHANGED done
  \/ ReadEnd /\ UNCHANGED <<reads, done>>
  \/ /\ Scan /\ UNCHANGED reads
     /\ LET t == FirstNL(buf, rd + 1) IN
        IF t # 0 /\ t <= rend
        THEN LET r == Run(hdr, SubSeq(buf, proc + 1, t)) IN done' = done \o SkelOf(r.evs, OutBytes(r.evs))
        ELSE done' = done
  \/ (Write \/ Flush) /\ UNCHANGED <<reads, done>>
TSpec == TInit /\ [][TNext]_tvars

\* ScpiProcessImpl folded over the history of reads: [st, evs]
RECURSIVE Fold(_, _, _)
Fold(st, evs, k) ==
  IF k > Len(reads) THEN [st |-> st, evs |-> evs]
  ELSE LET sc == PScan(Cfg, N, [st EXCEPT !.buf = @ \o reads[k]], <<>>) IN Fold(sc.st, evs \o sc.evs, k + 1)

Tied ==
  pc = "read" =>
    LET f == Fold(PSt0, <<>>, 1) IN
    /\ f.st.buf = SubSeq(buf, 1, rd) /\ f.st.rd = rd /\ f.st.proc = proc /\ f.st.hdr = hdr
    /\ f.evs = done
=============================================================================
