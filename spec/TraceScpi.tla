------------------------------ MODULE TraceScpi ------------------------------
(***************************************************************************)
(* Trace specification (code -> specification) for the interface level.    *)
(* One NDJSON line per case, written by `conf exec`; the linearization     *)
(* point of a sequential call is its return, so one line carries the whole *)
(* observable outcome of one call (run), of several calls on one instance  *)
(* (runs) or of one scripted session (process).  Every event of every line *)
(* is checked against the specification's relation:                        *)
(*   kind "run"      ScpiRun!Accepts                                       *)
(*   kind "runs"     ScpiRun!Accepts per call, error queue carried over    *)
(*   kind "process"  ScpiProcess!ProcAccepts                               *)
(* plus the C05 / C13 monitors.  `nfree` counts the lines that were        *)
(* decided (partly) on territory the properties leave free.                *)
(* Every recorded process session is ALSO compared with the                *)
(* implementation-shaped model (ScpiProcessImpl): `nimpl` counts the       *)
(* sessions it explains step by step; one it does not is printed as        *)
(* IMPL-DRIFT (a note, not a rejection - that layer pins more than the     *)
(* properties do).                                                         *)
(***************************************************************************)
EXTENDS Ifaces, ScpiProcess, ScpiProcessImpl, Json, IOUtils, TLC, TLCExt

\* The trace file is read ONCE (in Init) into a TLC register: TLC does not cache the value of a definition
\* that calls into IOUtils/Json, and re-reading a large file at every reference dominates the run time.
RecsFile == ndJsonDeserialize(IOEnv.TRACE)
Recs == TLCGet(42)

VARIABLES l, nfree, carry, nimpl
vars == <<l, nfree, carry, nimpl>>
\* carry: state the specification keeps from one line to the next - the contents of a long-lived error
\* queue whose history is recorded over several lines ("cont" lines of kind "queue")

Room(w) == IF "cap" \in DOMAIN w THEN w.cap ELSE -1

\* C05 / C13 monitors of a run call: no panic, it returned, the returned slice is a
\* suffix of the input, no heap allocation with fixed-capacity writers
RunMonitors(input, w, o) ==
  /\ o # <<>>
  /\ \A i \in 1..Len(o) : o[i].e # "panic"
  /\ Last(o).e = "ret" /\ Last(o).suffix /\ Last(o).rem <= Len(input)
  /\ (w.k # "std" => Last(o).allocs = 0)
ProcMonitors(o) ==
  /\ o # <<>> /\ \A i \in 1..Len(o) : o[i].e # "panic"
  /\ Last(o).e = "end" /\ ("allocs" \in DOMAIN Last(o) => Last(o).allocs = 0)

\* index of the first "ret"/"panic" event at or after i (0 if none)
RECURSIVE NextRet(_, _)
NextRet(o, i) == IF i > Len(o) THEN 0 ELSE IF o[i].e \in {"ret", "panic"} THEN i ELSE NextRet(o, i + 1)

\* several run calls on one instance: [ok, free]
RECURSIVE RunsOk(_, _, _, _, _, _, _)
RunsOk(cfg, q, w, msgs, k, o, i) ==
  IF k > Len(msgs) THEN [ok |-> i = Len(o) + 1, free |-> FALSE]
  ELSE LET j == NextRet(o, i) IN
       IF j = 0 THEN [ok |-> FALSE, free |-> FALSE]
       ELSE LET seg == SubSeq(o, i, j)
                E == RunEnd(cfg, q, Room(w), msgs[k], seg)
            IN IF ~RunMonitors(msgs[k], w, seg) \/ E = {} THEN [ok |-> FALSE, free |-> FALSE]
               ELSE IF \A st \in E : st.free THEN [ok |-> TRUE, free |-> TRUE]
               ELSE RunsOk(cfg, (CHOOSE st \in E : ~st.free).q, w, msgs, k + 1, o, j + 1)

\* C07: what must be identical for every delivery schedule of one stream - the handlers
\* invoked (with their arguments), the errors reported, the response bytes written
RECURSIVE Pick(_, _, _)
Pick(o, i, es) == IF i > Len(o) THEN <<>>
                  ELSE (IF o[i].e \in es THEN <<o[i]>> ELSE <<>>) \o Pick(o, i + 1, es)
RECURSIVE CatB(_)
CatB(es) == IF es = <<>> THEN <<>> ELSE es[1].b \o CatB(Tail(es))
Proj(o, oute) ==
  LET cs == Pick(o, 1, {"call"})
      es == Pick(o, 1, {"err"})
  IN [calls |-> [i \in 1..Len(cs) |-> <<cs[i].id, cs[i].args>>],
      errs  |-> [i \in 1..Len(es) |-> <<es[i].n, es[i].txt>>],
      out   |-> CatB(Pick(o, 1, {oute}))]
ProcSetJudge(r) ==
  LET vs == r.obs.v
      js == [k \in 1..Len(vs) |->
               LET E == ProcEnd(CfgOf(r.iface), r.N, vs[k]) IN
               [ok |-> ProcMonitors(vs[k]) /\ EndOk(r.N, vs[k]) /\ E # {}, free |-> \A st \in E : st.free]]
      ref == Proj(vs[1], "write")
      same == \A k \in 2..Len(vs) : Proj(vs[k], "write") = ref
      asruns == "runs" \in DOMAIN r.obs => Proj(r.obs.runs, "out") = ref
  IN [ok |-> same /\ asruns /\ \A k \in 1..Len(vs) : js[k].ok, free |-> \E k \in 1..Len(vs) : js[k].free]

\* C11: several spellings of one message - each allowed by the specification, and the
\* handlers, arguments, errors and output identical
RunSetJudge(r) ==
  LET os == r.obs
      js == [k \in 1..Len(os) |->
               LET E == RunEnd(CfgOf(r.iface), <<>>, Room(r.w), r.ins[k], os[k]) IN
               [ok |-> RunMonitors(r.ins[k], r.w, os[k]) /\ E # {}, free |-> \A st \in E : st.free]]
      ref == Proj(os[1], "out")
  IN [ok |-> (\A k \in 1..Len(os) : js[k].ok) /\ \A k \in 2..Len(os) : Proj(os[k], "out") = ref,
      free |-> \E k \in 1..Len(os) : js[k].free]

\* C05/C04/C13: one input, several writers and several process configurations
MultiJudge(r) ==
  LET rs == r.obs.runs
      ps == r.obs.procs
      rj == [k \in 1..Len(rs) |->
               IF r.writers[k].k = "rec"
               THEN LET E == RunEnd(CfgOf(r.iface), <<>>, Room(r.writers[k]), r.in, rs[k]) IN
                    [ok |-> RunMonitors(r.in, r.writers[k], rs[k]) /\ E # {}, free |-> \A st \in E : st.free]
               ELSE [ok |-> RunMonitors(r.in, r.writers[k], rs[k]), free |-> FALSE]]
      pj == [k \in 1..Len(ps) |->
               LET E == ProcEnd(CfgOf(r.iface), r.procs[k].N, ps[k]) IN
               [ok |-> ProcMonitors(ps[k]) /\ EndOk(r.procs[k].N, ps[k]) /\ E # {}, free |-> \A st \in E : st.free]]
      \* the shipped writers produce the bytes the pass-through writer (always listed first) saw,
      \* when they have room
      full == CatB(Pick(rs[1], 1, {"out"}))
      wsame == \A k \in 2..Len(rs) :
                 (r.writers[k].k \in {"std", "heapless"} /\ (r.writers[k].k = "std" \/ r.writers[k].cap >= Len(full)))
                    => CatB(Pick(rs[k], 1, {"wout"})) = full
  IN [ok |-> wsame /\ (\A k \in 1..Len(rs) : rj[k].ok) /\ \A k \in 1..Len(ps) : pj[k].ok,
      free |-> (\E k \in 1..Len(rs) : rj[k].free) \/ \E k \in 1..Len(ps) : pj[k].free]

\* C10: a transport error at every position of the adapter call sequence
FailSetJudge(r) ==
  LET ref == r.obs.ref
      fs == r.obs.f
      okref == LET E == ProcEnd(CfgOf(r.iface), r.N, ref) IN ProcMonitors(ref) /\ EndOk(r.N, ref) /\ E # {}
      okf(o) == /\ ProcMonitors(o) /\ EndOk(r.N, o) /\ ProcEnd(CfgOf(r.iface), r.N, o) # {}
                /\ Last(o).res = "injected"
                \* everything before the failing call is what the fault-free session did
                /\ Len(o) - 2 <= Len(ref) /\ SubSeq(o, 1, Len(o) - 2) = SubSeq(ref, 1, Len(o) - 2)
  IN [ok |-> okref /\ \A k \in 1..Len(fs) : okf(fs[k]), free |-> FALSE]

\* C09, direct binding: the ErrorQueue trait methods on StaticErrorQueue<K>
CustomTxt == <<99, 117, 115, 116, 111, 109>>     \* "custom"
RECURSIVE QueueWalk(_, _, _, _, _)
QueueWalk(K, q, ops, res, i) ==       \* [ok, q]: every observed result is the specification's, and the final queue
  IF i > Len(ops) THEN [ok |-> Len(res) = Len(ops), q |-> q]
  ELSE LET o == ops[i] r == res[i] IN
       CASE o.op = "push" ->
              LET txt == IF ("custom" \in DOMAIN o /\ o.custom) \/ ErrText(o.n) = ANYT THEN CustomTxt ELSE ErrText(o.n) IN
              IF r.r = "pushed" THEN QueueWalk(K, QPush(q, K, [n |-> o.n, txt |-> txt]), ops, res, i + 1) ELSE [ok |-> FALSE, q |-> q]
         [] o.op = "pop" ->
              IF q = <<>> THEN (IF r.r = "none" THEN QueueWalk(K, q, ops, res, i + 1) ELSE [ok |-> FALSE, q |-> q])
              ELSE IF r.r = "pop" /\ r.n = QFront(q).n /\ ("txt" \in DOMAIN r => r.txt = QFront(q).txt)
                   THEN QueueWalk(K, QPop(q), ops, res, i + 1)
                   ELSE [ok |-> FALSE, q |-> q]
         [] OTHER -> IF r.r = "count" /\ r.c = QCount(q) THEN QueueWalk(K, q, ops, res, i + 1) ELSE [ok |-> FALSE, q |-> q]
QueueLine(r, q0) == QueueWalk(r.K, IF "cont" \in DOMAIN r /\ r.cont THEN q0 ELSE <<>>, r.ops, r.obs, 1)

\* the standard error table: number(), Into<&str>, Display and the Response impl agree with ScpiErrors
ErrTableOk(o) ==
  /\ Len(o) = Len(ErrTable) /\ TableWellFormed
  /\ \A i \in 1..Len(o) :
        /\ o[i].name = ErrTable[i].name /\ o[i].n = ErrTable[i].n /\ o[i].txt = ErrTable[i].txt
        /\ o[i].disp = ErrTable[i].txt
        /\ Decodes(o[i].resp, [t |-> "tup", items |-> <<IntResp(ErrTable[i].n), [t |-> "str", b |-> ErrTable[i].txt]>>])

\* C03, direct binding: Value -> T through TryInto, by value and by reference
ConvOutcomeOk(tok, ty, o) ==
  IF o.ok THEN (IF ty \in {"f32", "f64"} THEN o.v.t = ty /\ \E a \in AllowedConv(tok, ty) : a.ok
                ELSE Deliver(o.v) \in AllowedConv(tok, ty))
  ELSE Err(o.n) \in AllowedConv(tok, ty)
ConvJudge(r) ==
  r.obs.r = "skip" \/ (r.obs.r = "conv" /\ r.obs.byval = r.obs.byref /\ ConvOutcomeOk(r.tok, r.ty, r.obs.byval))

\* C07/C10 for sessions too large for the full stream semantics (buffers above 2^16 bytes) or on a hand-written
\* Interface whose command set changes at run time (no single declaration set describes it): the monitors,
\* the end conditions, and identical handlers / errors / response bytes for every delivery schedule
ProcDiffJudge(r) ==
  LET vs == r.obs.v
      ref == Proj(vs[1], "write")
  IN [ok |-> /\ \A k \in 1..Len(vs) : ProcMonitors(vs[k]) /\ EndOk(r.N, vs[k])
             /\ \A k \in 2..Len(vs) : Proj(vs[k], "write") = ref
             /\ ("expect_out" \in DOMAIN r => ref.out = r.expect_out)
             /\ ("runs" \in DOMAIN r.obs => Proj(r.obs.runs, "out") = ref),
      free |-> FALSE]

\* [ok, free] of one line
Judge(r) ==
  CASE r.kind = "run" ->
         LET E == RunEnd(CfgOf(r.iface), <<>>, Room(r.w), r.in, r.obs) IN
         [ok |-> RunMonitors(r.in, r.w, r.obs) /\ E # {}, free |-> \A st \in E : st.free]
    [] r.kind = "runs" -> RunsOk(CfgOf(r.iface), <<>>, r.w, r.msgs, 1, r.obs, 1)
    [] r.kind = "conv" -> [ok |-> ConvJudge(r), free |-> FALSE]
    [] r.kind = "errtable" -> [ok |-> ErrTableOk(r.obs), free |-> FALSE]
    [] r.kind = "queue" -> [ok |-> QueueLine(r, carry).ok, free |-> FALSE]
    [] r.kind = "procset" -> ProcSetJudge(r)
    [] r.kind = "procdiff" -> ProcDiffJudge(r)
    [] r.kind = "runset" -> RunSetJudge(r)
    [] r.kind = "multi" -> MultiJudge(r)
    [] r.kind = "failset" -> FailSetJudge(r)
    [] r.kind = "process" ->
         LET E == ProcEnd(CfgOf(r.iface), r.N, r.obs) IN
         [ok |-> ProcMonitors(r.obs) /\ EndOk(r.N, r.obs) /\ E # {}, free |-> \A st \in E : st.free]

\* verdicts of the implementation-shaped layer for the process sessions of one line
ImplVerdicts(r) ==
  IF IOEnv.VERIF_IMPL = "0" THEN <<>>
  ELSE CASE r.kind = "process" -> IF Len(r.stream) > 300 THEN <<>> ELSE <<ImplProcVerdict(CfgOf(r.iface), r.N, r.obs)>>
         \* long streams (payload sweeps) and the many schedules of one stream are sampled: the comparison is linear in the
         \* stream per schedule, and the abstract relation already demands identical events for all schedules
         [] r.kind = "procset" -> IF Len(r.stream) > 300 THEN <<>>
                                  ELSE [k \in 1..(IF Len(r.obs.v) < 4 THEN Len(r.obs.v) ELSE 4) |-> ImplProcVerdict(CfgOf(r.iface), r.N, r.obs.v[k])]
         \* the fault variants are prefixes of the fault-free session (FailSetJudge), which is the one compared
         [] r.kind = "failset" -> IF Len(r.stream) > 300 THEN <<>> ELSE <<ImplProcVerdict(CfgOf(r.iface), r.N, r.obs.ref)>>
         [] r.kind = "multi" -> IF Len(r.in) > 300 THEN <<>>
                                ELSE [k \in 1..(IF Len(r.obs.procs) < 4 THEN Len(r.obs.procs) ELSE 4) |->
                                        ImplProcVerdict(CfgOf(r.iface), r.procs[k].N, r.obs.procs[k])]
         [] OTHER -> <<>>
RECURSIVE CountOk(_, _, _)
CountOk(V, k, line) ==
  IF k > Len(V) THEN 0
  ELSE (IF V[k] = "ok" THEN 1 ELSE IF V[k] = "drift" /\ PrintT(<<"IMPL-DRIFT", line, k>>) THEN 0 ELSE 0) + CountOk(V, k + 1, line)

Init == TLCSet(42, RecsFile) /\ l = 1 /\ nfree = 0 /\ carry = <<>> /\ nimpl = 0
Next == /\ l <= Len(Recs)
        /\ IF Recs[l].kind = "queue"
           THEN LET w == QueueLine(Recs[l], carry) IN w.ok /\ carry' = w.q /\ nfree' = nfree
           ELSE LET j == Judge(Recs[l]) IN j.ok /\ nfree' = nfree + (IF j.free THEN 1 ELSE 0) /\ carry' = carry
        /\ nimpl' = nimpl + CountOk(ImplVerdicts(Recs[l]), 1, l)
        /\ l' = l + 1
        /\ (l = Len(Recs) => PrintT(<<"TRACE-STATS", Len(Recs), nimpl', nfree'>>))
Spec == Init /\ [][Next]_vars

\* accepted iff every line was consumed; otherwise name the first line that was not
TraceAccepted ==
  LET d == TLCGet("stats").diameter IN
  IF d - 1 = Len(RecsFile) THEN TRUE
  ELSE PrintT(<<"TRACE-REJECT", d>>) /\ FALSE
=============================================================================
