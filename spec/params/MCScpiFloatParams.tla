---- MODULE MCScpiFloatParams ----
\* DEFAULT parameters (C03/C04 float definition). bin/check writes the actual ones per run into its work
\* directory; this copy makes the specification self-contained for SANY / manual TLC runs.
EXTENDS Integers, Sequences

MaxM == 20
MaxE == 2
Formats == {[p |-> 3, emin |-> -2, emax |-> 3]}
====
