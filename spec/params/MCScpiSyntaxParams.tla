---- MODULE MCScpiSyntaxParams ----
\* DEFAULT parameters (C12: 18-symbol class alphabet, L<=3). bin/check writes the actual ones per run into its work
\* directory; this copy makes the specification self-contained for SANY / manual TLC runs.
EXTENDS Integers, Sequences

IfaceName == "main"
Sigma == {65,66,49,58,59,44,10,32,63,42,35,34,39,43,46,69,72,33}
MaxLen == 3
Prefix == <<>>
Starts == <<<<>>, <<<<65>>>>>>
EmitReplay == FALSE
LegacyChoice == FALSE
====
