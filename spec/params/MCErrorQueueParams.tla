---- MODULE MCErrorQueueParams ----
\* DEFAULT parameters (C09). bin/check writes the actual ones per run into its work
\* directory; this copy makes the specification self-contained for SANY / manual TLC runs.
EXTENDS Integers, Sequences

K == 2
MaxOps == 6
Variant == "spec"
====
