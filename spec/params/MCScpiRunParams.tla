---- MODULE MCScpiRunParams ----
\* DEFAULT parameters (C02 quick: path vocabulary, <=3 units, 1 message). bin/check writes the actual ones per run into its work
\* directory; this copy makes the specification self-contained for SANY / manual TLC runs.
EXTENDS Integers, Sequences

IfaceName == "main"
Vocab == <<<<68>>, <<66>>, <<65, 58, 66>>, <<58, 68>>, <<58, 67>>, <<58, 65, 58, 68>>, <<42, 88>>, <<90>>, <<65>>, <<66, 58, 68, 63>>, <<68, 32, 33>>, <<79, 58, 68, 58, 66>>, <<68, 58, 66>>, <<65, 58, 78, 32, 57, 57, 57>>, <<65, 58, 78>>, <<65, 58, 70>>>>
MaxUnits == 3
MaxMsgs == 1
Legacy == {}
EmitReplay == TRUE
====
