---- MODULE MCScpiProcessParams ----
\* DEFAULT parameters (C07 quick: N=4, stream<=6). bin/check writes the actual ones per run into its work
\* directory; this copy makes the specification self-contained for SANY / manual TLC runs.
EXTENDS Integers, Sequences

IfaceName == "tiny"
Sigma == {65,66,58,63,59,10,32,34,33}
N == 4
MaxLen == 6
Legacy == {}
ModelFaults == TRUE
====
