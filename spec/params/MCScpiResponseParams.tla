---- MODULE MCScpiResponseParams ----
\* DEFAULT parameters (C04). bin/check writes the actual ones per run into its work
\* directory; this copy makes the specification self-contained for SANY / manual TLC runs.
EXTENDS Integers, Sequences

Legacy == FALSE
====
