---- MODULE MCScpiTreeParams ----
\* DEFAULT parameters (C01/C14: first 30 pool declarations, <=2 per set). bin/check writes the actual ones per run into its work
\* directory; this copy makes the specification self-contained for SANY / manual TLC runs.
EXTENDS Integers, Sequences

Pool == <<
  [parts |-> <<[nm |-> <<65, 98>>, opt |-> FALSE]>>, q |-> FALSE, args |-> <<>>, beh |-> [k |-> "ok"]],
  [parts |-> <<[nm |-> <<65, 98>>, opt |-> FALSE]>>, q |-> TRUE, args |-> <<>>, beh |-> [k |-> "ok"]],
  [parts |-> <<[nm |-> <<65, 66>>, opt |-> FALSE]>>, q |-> FALSE, args |-> <<>>, beh |-> [k |-> "ok"]],
  [parts |-> <<[nm |-> <<65, 66>>, opt |-> FALSE]>>, q |-> TRUE, args |-> <<>>, beh |-> [k |-> "ok"]],
  [parts |-> <<[nm |-> <<97, 66>>, opt |-> FALSE]>>, q |-> FALSE, args |-> <<>>, beh |-> [k |-> "ok"]],
  [parts |-> <<[nm |-> <<97, 66>>, opt |-> FALSE]>>, q |-> TRUE, args |-> <<>>, beh |-> [k |-> "ok"]],
  [parts |-> <<[nm |-> <<65, 66, 99, 100>>, opt |-> FALSE]>>, q |-> FALSE, args |-> <<>>, beh |-> [k |-> "ok"]],
  [parts |-> <<[nm |-> <<65, 66, 99, 100>>, opt |-> FALSE]>>, q |-> TRUE, args |-> <<>>, beh |-> [k |-> "ok"]],
  [parts |-> <<[nm |-> <<65, 49, 98>>, opt |-> FALSE]>>, q |-> FALSE, args |-> <<>>, beh |-> [k |-> "ok"]],
  [parts |-> <<[nm |-> <<65, 49, 98>>, opt |-> FALSE]>>, q |-> TRUE, args |-> <<>>, beh |-> [k |-> "ok"]],
  [parts |-> <<[nm |-> <<65, 95, 98>>, opt |-> FALSE]>>, q |-> FALSE, args |-> <<>>, beh |-> [k |-> "ok"]],
  [parts |-> <<[nm |-> <<65, 95, 98>>, opt |-> FALSE]>>, q |-> TRUE, args |-> <<>>, beh |-> [k |-> "ok"]],
  [parts |-> <<[nm |-> <<66, 99>>, opt |-> FALSE]>>, q |-> FALSE, args |-> <<>>, beh |-> [k |-> "ok"]],
  [parts |-> <<[nm |-> <<66, 99>>, opt |-> FALSE]>>, q |-> TRUE, args |-> <<>>, beh |-> [k |-> "ok"]],
  [parts |-> <<[nm |-> <<67, 100>>, opt |-> FALSE]>>, q |-> FALSE, args |-> <<>>, beh |-> [k |-> "ok"]],
  [parts |-> <<[nm |-> <<67, 100>>, opt |-> FALSE]>>, q |-> TRUE, args |-> <<>>, beh |-> [k |-> "ok"]],
  [parts |-> <<[nm |-> <<42, 65, 98>>, opt |-> FALSE]>>, q |-> FALSE, args |-> <<>>, beh |-> [k |-> "ok"]],
  [parts |-> <<[nm |-> <<42, 65, 98>>, opt |-> FALSE]>>, q |-> TRUE, args |-> <<>>, beh |-> [k |-> "ok"]],
  [parts |-> <<[nm |-> <<42, 67, 68>>, opt |-> FALSE]>>, q |-> FALSE, args |-> <<>>, beh |-> [k |-> "ok"]],
  [parts |-> <<[nm |-> <<42, 67, 68>>, opt |-> FALSE]>>, q |-> TRUE, args |-> <<>>, beh |-> [k |-> "ok"]],
  [parts |-> <<[nm |-> <<65, 98>>, opt |-> FALSE], [nm |-> <<65, 98>>, opt |-> FALSE]>>, q |-> FALSE, args |-> <<>>, beh |-> [k |-> "ok"]],
  [parts |-> <<[nm |-> <<65, 98>>, opt |-> FALSE], [nm |-> <<65, 98>>, opt |-> FALSE]>>, q |-> TRUE, args |-> <<>>, beh |-> [k |-> "ok"]],
  [parts |-> <<[nm |-> <<65, 98>>, opt |-> TRUE], [nm |-> <<65, 98>>, opt |-> FALSE]>>, q |-> FALSE, args |-> <<>>, beh |-> [k |-> "ok"]],
  [parts |-> <<[nm |-> <<65, 98>>, opt |-> TRUE], [nm |-> <<65, 98>>, opt |-> FALSE]>>, q |-> TRUE, args |-> <<>>, beh |-> [k |-> "ok"]],
  [parts |-> <<[nm |-> <<65, 98>>, opt |-> FALSE], [nm |-> <<65, 98>>, opt |-> TRUE]>>, q |-> FALSE, args |-> <<>>, beh |-> [k |-> "ok"]],
  [parts |-> <<[nm |-> <<65, 98>>, opt |-> FALSE], [nm |-> <<65, 98>>, opt |-> TRUE]>>, q |-> TRUE, args |-> <<>>, beh |-> [k |-> "ok"]],
  [parts |-> <<[nm |-> <<65, 98>>, opt |-> FALSE], [nm |-> <<65, 66>>, opt |-> FALSE]>>, q |-> FALSE, args |-> <<>>, beh |-> [k |-> "ok"]],
  [parts |-> <<[nm |-> <<65, 98>>, opt |-> FALSE], [nm |-> <<65, 66>>, opt |-> FALSE]>>, q |-> TRUE, args |-> <<>>, beh |-> [k |-> "ok"]],
  [parts |-> <<[nm |-> <<65, 98>>, opt |-> TRUE], [nm |-> <<65, 66>>, opt |-> FALSE]>>, q |-> FALSE, args |-> <<>>, beh |-> [k |-> "ok"]],
  [parts |-> <<[nm |-> <<65, 98>>, opt |-> TRUE], [nm |-> <<65, 66>>, opt |-> FALSE]>>, q |-> TRUE, args |-> <<>>, beh |-> [k |-> "ok"]] >>
MaxDecls == 2
MaxDeclsWithAttrs == 1
Mode == "explore"
EmitSets == {}
Dedup == TRUE
====
