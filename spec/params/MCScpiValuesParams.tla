---- MODULE MCScpiValuesParams ----
\* DEFAULT parameters (C03: decimal alphabet). bin/check writes the actual ones per run into its work
\* directory; this copy makes the specification self-contained for SANY / manual TLC runs.
EXTENDS Integers, Sequences

Sigma == {48,49,55,57,43,45,46,69}
MaxLen == 3
====
