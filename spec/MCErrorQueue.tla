---------------------------- MODULE MCErrorQueue ----------------------------
(***************************************************************************)
(* The error queue as a stand-alone state machine (C09).                   *)
(* Actions: Push(e) for e in a small error universe, Pop, Count (a no-op   *)
(* that observes).                                                         *)
(*   Bounded        Len(q) <= K                                            *)
(*   AppendWhenRoom (action) a push with room appends exactly the error    *)
(*   OlderIntact    (action) a push never changes entries 1..Len-1         *)
(*   OverflowAtBack (action) a push on a full queue changes only the last  *)
(*                  entry, to -350                                         *)
(*   FifoPop        (action) a pop removes exactly the oldest entry        *)
(* Parameters: K, MaxOps, Variant ("spec" | "dropoldest" | "dropnew")      *)
(***************************************************************************)
EXTENDS ErrorQueue, MCErrorQueueParams, TLC

Errs == {[n |-> -113, txt |-> <<85>>], [n |-> -200, txt |-> <<69>>], [n |-> 321, txt |-> <<100>>]}

VARIABLES q, op, nops
vars == <<q, op, nops>>
\* op: the operation that led to this state (so that the properties can tell a push that
\* changed nothing from a pop)

PushV(qq, e) == CASE Variant = "spec" -> QPush(qq, K, e)
                  [] Variant = "dropoldest" -> QPushDropOldest(qq, K, e)
                  [] OTHER -> QPushDropNew(qq, K, e)

Init == q = <<>> /\ op = [k |-> "init"] /\ nops = 0
Push == /\ nops < MaxOps
        /\ \E e \in Errs : q' = PushV(q, e) /\ op' = [k |-> "push", e |-> e]
        /\ nops' = nops + 1
Pop == /\ nops < MaxOps /\ q' = QPop(q) /\ op' = [k |-> "pop"]
       /\ nops' = nops + 1
Next == Push \/ Pop
Spec == Init /\ [][Next]_vars

IsPush(o) == o.k = "push"
Bounded == Len(q) <= K
\* a push with room appends exactly the new error
AppendWhenRoom == [][(IsPush(op') /\ Len(q) < K) => q' = Append(q, op'.e)]_vars
\* a push on a full queue replaces exactly the newest entry by -350: older entries intact
OverflowAtBack == [][(IsPush(op') /\ Len(q) = K) => q' = [q EXCEPT ![K] = QOverflow]]_vars
OlderIntact == [][IsPush(op') => SubSeq(q', 1, Len(q) - 1) = SubSeq(q, 1, Len(q) - 1)]_vars
\* a pop removes the oldest entry and nothing else
FifoPop == [][op'.k = "pop" => q' = (IF q = <<>> THEN q ELSE Tail(q))]_vars
=============================================================================
