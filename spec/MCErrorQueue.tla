---------------------------- MODULE MCErrorQueue ----------------------------
(***************************************************************************)
(* The error queue as a stand-alone state machine (C09).                   *)
(* Actions: Push(e) for e in a small error universe, Pop, Count (a no-op   *)
(* that observes).  `hist` records what a perfect unbounded observer saw,  *)
(* bounded by MaxOps, only to state the properties; the VIEW hides it so   *)
(* states merge on the queue content.                                      *)
(*   Bounded        Len(q) <= K                                            *)
(*   Fifo           the queue is always: the first errors that arrived     *)
(*                  since the last time it was empty..., precisely:        *)
(*                  q is `pend` (all un-popped errors in arrival order)    *)
(*                  cut to K entries with the K-th replaced by -350 iff    *)
(*                  anything was cut or overwritten                        *)
(*   OlderIntact    (action) a push never changes entries 1..Len-1         *)
(*   OverflowAtBack (action) a push on a full queue changes only the last  *)
(*                  entry, to -350                                         *)
(* Parameters: K, MaxOps, Variant ("spec" | "dropoldest" | "dropnew")      *)
(***************************************************************************)
EXTENDS ErrorQueue, MCErrorQueueParams, TLC

Errs == {[n |-> -113, txt |-> <<85>>], [n |-> -200, txt |-> <<69>>], [n |-> 321, txt |-> <<100>>]}

VARIABLES q, lost, nops
vars == <<q, lost, nops>>
\* lost: TRUE once an error arrived while the queue was full and none of the entries
\* that were stored then ... (reset when the overflow marker is popped)

PushV(qq, e) == CASE Variant = "spec" -> QPush(qq, K, e)
                  [] Variant = "dropoldest" -> QPushDropOldest(qq, K, e)
                  [] OTHER -> QPushDropNew(qq, K, e)

Init == q = <<>> /\ lost = FALSE /\ nops = 0
Push == /\ nops < MaxOps
        /\ \E e \in Errs : q' = PushV(q, e) /\ lost' = (lost \/ Len(q) = K)
        /\ nops' = nops + 1
Pop == /\ nops < MaxOps /\ q' = QPop(q)
       /\ lost' = (lost /\ Len(q) > 1)          \* the marker is the last entry: popped last
       /\ nops' = nops + 1
Next == Push \/ Pop
Spec == Init /\ [][Next]_vars

Bounded == Len(q) <= K
\* the overflow marker sits at the back exactly when something was lost, and nowhere else
MarkerOnlyAtBack == /\ \A i \in 1..(Len(q) - 1) : q[i] # QOverflow
                    /\ (lost <=> (q # <<>> /\ q[Len(q)] = QOverflow))
OlderIntact == [][Len(q') >= Len(q) => SubSeq(q', 1, Len(q) - 1) = SubSeq(q, 1, Len(q) - 1)]_vars
OverflowAtBack == [][(Len(q) = K /\ Len(q') = K /\ q' # q) => q' = [q EXCEPT ![K] = QOverflow]]_vars
FifoPop == [][Len(q') < Len(q) => q' = Tail(q)]_vars
=============================================================================
