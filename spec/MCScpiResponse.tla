---------------------------- MODULE MCScpiResponse ----------------------------
(***************************************************************************)
(* Response data (C04), bounded model: every value TLC builds from the     *)
(* small universes below is encoded as response.rs does (Encode) and       *)
(*   RoundTrip   Decodes(Encode(v), v)                                     *)
(*   Injective   no other value of the universe decodes from those bytes   *)
(*               (this is what fails when quotes are not doubled or when   *)
(*               separators are ambiguous)                                 *)
(* Parameter: Legacy (TRUE = pre-repair quoting, negative control)         *)
(***************************************************************************)
EXTENDS ScpiResponse, MCScpiResponseParams, TLC, FiniteSets

SeqsUpTo(S, n) == UNION {[1..k -> S] : k \in 0..n}
StrBytes == {97, DQ, COMMA, SQ, NL}
BlkBytes == {0, NL, DQ, HASH, 255}
Ints == {[t |-> "int", d |-> d] : d \in {<<48>>, <<45, 53>>, <<49, 50>>}}
Strs == {[t |-> "str", b |-> b] : b \in SeqsUpTo(StrBytes, 3)}
Blks == {[t |-> "blk", b |-> b] : b \in SeqsUpTo(BlkBytes, 2)}
Bools == {[t |-> "bool", v |-> v] : v \in BOOLEAN}
Scalars == Ints \cup Strs \cup Blks \cup Bools
SmallStrs == {[t |-> "str", b |-> b] : b \in SeqsUpTo({97, DQ, COMMA}, 2)}
Tups == {[t |-> "tup", items |-> <<a, c>>] : a \in Ints \cup SmallStrs, c \in SmallStrs \cup Bools}
         \cup {[t |-> "tup", items |-> <<a, c, e>>] : a \in SmallStrs, c \in Ints, e \in SmallStrs}
Universe == Scalars \cup Tups

VARIABLE v
Init == v \in Universe
Next == UNCHANGED v
Spec == Init /\ [][Next]_v

Enc(w) == EncodeL(w, Legacy)
RoundTrip == Decodes(Enc(v), v)
\* values of the same shape (same type, same arity) - a controller knows what it asked for
SameShape(a, c) == a.t = c.t /\ (a.t = "tup" => Len(a.items) = Len(c.items) /\ \A i \in 1..Len(a.items) : a.items[i].t = c.items[i].t)
Injective == \A w \in Universe : (SameShape(v, w) /\ Decodes(Enc(v), w)) => w = v
=============================================================================
