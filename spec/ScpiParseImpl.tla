---------------------------- MODULE ScpiParseImpl ----------------------------
(***************************************************************************)
(* IMPLEMENTATION-SHAPED parser: a transcription of microscpi/src/parser.rs *)
(* combinator by combinator (recursive descent over a complete slice with  *)
(* ordered choice and a three-valued failure: SoftError / FatalError /      *)
(* Incomplete).  ScpiSyntax is the GRAMMAR (an online transducer);          *)
(* this module is what the code DOES.  MCScpiParseImpl checks that for      *)
(* every input within the bounds the two agree (the verdict of ParseImpl is *)
(* one ScpiSyntax/MCScpiSyntax!Verdicts allows), which is the design-level  *)
(* content of C12 and C08: an alternative's failure must not replace an     *)
(* earlier Incomplete (switch LegacyChoice restores the pre-repair ordered  *)
(* choice and makes the check fail).                                        *)
(*                                                                         *)
(* A parser is an operator (x, i) -> result, i = index of the next unread   *)
(* byte of x.  Results: [k |-> "ok", i |-> next index, v |-> value]         *)
(*                      [k |-> "soft"]  [k |-> "fatal"]  [k |-> "inc"]      *)
(* Nodes of the command tree are spelled paths (the trie of ScpiTree).      *)
(***************************************************************************)
EXTENDS ScpiLex, ScpiTree, ScpiSyntax

Ok(i, v) == [k |-> "ok", i |-> i, v |-> v]
Soft  == [k |-> "soft"]
Fatal == [k |-> "fatal"]
Inc   == [k |-> "inc"]
IsOk(r) == r.k = "ok"
None == [some |-> FALSE]
Some(v) == [some |-> TRUE, v |-> v]

AtEnd(x, i) == i > Len(x)

\* satisfy(pred): parser.rs:87-96
\* (predicates are given as SETS of bytes)
Satisfy(x, i, S) == IF AtEnd(x, i) THEN Inc ELSE IF x[i] \in S THEN Ok(i + 1, x[i]) ELSE Soft
\* take_while(pred): 76-84 - first index at or after i whose byte fails the predicate
RECURSIVE TakeWhileEnd(_, _, _)
TakeWhileEnd(x, i, S) == IF i <= Len(x) /\ x[i] \in S THEN TakeWhileEnd(x, i + 1, S) ELSE i
WsSet == WsBytes
DigitSet == 48..57
AlphaSet == (65..90) \cup (97..122)
MnSet == AlphaSet \cup DigitSet \cup {USCORE}
HexSet == DigitSet \cup (65..70) \cup (97..102)
BinSet == {48, 49}
OctSet == 48..55
\* optional(p): 101-111 - ANY failure (soft, fatal, incomplete) means "absent"
Optional(r, i) == IF IsOk(r) THEN Ok(r.i, Some(r.v)) ELSE Ok(i, None)

\* whitespace: 119-130
Whitespace(x, i) == LET j == TakeWhileEnd(x, i, WsSet) IN
                    IF j = i THEN (IF AtEnd(x, i) THEN Inc ELSE Soft) ELSE Ok(j, <<>>)
Tag(x, i, b) == Satisfy(x, i, {b})
\* digits: 138-142 ; program_mnemonic: 145-149
Digits(x, i) == LET r == Satisfy(x, i, DigitSet) IN
                IF ~IsOk(r) THEN r ELSE Ok(TakeWhileEnd(x, r.i, DigitSet), <<>>)
Mnemonic(x, i) == LET r == Satisfy(x, i, AlphaSet) IN
                  IF ~IsOk(r) THEN r ELSE LET j == TakeWhileEnd(x, r.i, MnSet) IN Ok(j, SubSeq(x, i, j - 1))
\* sign: 152-154 (or_else on any failure)
Sign(x, i) == LET a == Tag(x, i, PLUS) IN IF IsOk(a) THEN a ELSE Tag(x, i, MINUS)

\* mantissa: 164-175
Mantissa(x, i) ==
  LET i1 == Optional(Sign(x, i), i).i
      d1 == Optional(Digits(x, i1), i1)
      i3 == Optional(Tag(x, d1.i, DOT), d1.i).i
  IN IF d1.v.some THEN Ok(Optional(Digits(x, i3), i3).i, <<>>)
     ELSE Digits(x, i3)
\* exponent: 178-183
Exponent(x, i) ==
  LET a == Satisfy(x, i, {69, 101}) IN
  IF ~IsOk(a) THEN a ELSE Digits(x, Optional(Sign(x, a.i), a.i).i)
\* decimal_numeric_program_data: 186-191
Decimal(x, i) ==
  LET m == Mantissa(x, i) IN
  IF ~IsOk(m) THEN m
  ELSE LET j == Optional(Exponent(x, m.i), m.i).i IN Ok(j, [k |-> "dec", t |-> SubSeq(x, i, j - 1)])
\* #H / #B / #Q: 194-221
Radix(x, i, letters, P, kind) ==
  LET a == Tag(x, i, HASH) IN
  IF ~IsOk(a) THEN a
  ELSE LET b == Satisfy(x, a.i, letters) IN
       IF ~IsOk(b) THEN b
       ELSE LET c == Satisfy(x, b.i, P) IN
            IF ~IsOk(c) THEN c
            ELSE LET j == TakeWhileEnd(x, c.i, P) IN Ok(j, [k |-> kind, t |-> SubSeq(x, b.i, j - 1)])
\* quoted strings: 224-239 (from_utf8 failure is a soft InvalidCharacter)
Quoted(x, i, qc) ==
  LET a == Tag(x, i, qc) IN
  IF ~IsOk(a) THEN a
  ELSE LET j == TakeWhileEnd(x, a.i, Byte \ {qc})
           z == Tag(x, j, qc)
       IN IF ~IsOk(z) THEN z
          ELSE IF ~IsUtf8(SubSeq(x, a.i, j - 1)) THEN Soft
          ELSE Ok(z.i, [k |-> "str", t |-> SubSeq(x, a.i, j - 1)])
\* usize::from_str_radix(count, 10): optional '+', then at least one digit, digits only
RECURSIVE NatOfAscii(_, _, _)
NatOfAscii(t, i, acc) == IF i > Len(t) THEN acc ELSE NatOfAscii(t, i + 1, acc * 10 + (t[i] - 48))
CountOk(t) == LET b == IF t # <<>> /\ t[1] = PLUS THEN Tail(t) ELSE t IN b # <<>> /\ \A k \in 1..Len(b) : IsDigit(b[k])
CountVal(t) == NatOfAscii(IF t[1] = PLUS THEN Tail(t) ELSE t, 1, 0)
\* arbitrary_program_data: 242-263
Arbitrary(x, i) ==
  LET a == Tag(x, i, HASH) IN
  IF ~IsOk(a) THEN a
  ELSE LET d == Satisfy(x, a.i, 49..56) IN
       IF ~IsOk(d) THEN d
       ELSE LET n == d.v - 48 IN
            IF Len(x) - d.i + 1 < n THEN Inc
            ELSE LET ct == SubSeq(x, d.i, d.i + n - 1)
                     p == d.i + n
                 IN IF ~CountOk(ct) THEN Soft
                    ELSE LET cnt == CountVal(ct) IN
                         IF Len(x) - p + 1 < cnt THEN Inc
                         ELSE Ok(p + cnt, [k |-> "blk", t |-> SubSeq(x, p, p + cnt - 1)])
Characters(x, i) == LET m == Mnemonic(x, i) IN IF ~IsOk(m) THEN m ELSE Ok(m.i, [k |-> "chr", t |-> m.v])

\* argument: 344-353.  Repaired: the next alternative is tried only after a SOFT failure.
\* LegacyChoice: plain `or_else` chain - any failure (also Incomplete) moves on, and the
\* result of the LAST alternative is what counts.
Alt(r, next, legacy) == IF IsOk(r) THEN r ELSE IF legacy \/ r.k = "soft" THEN next ELSE r
Argument(x, i, legacy) ==
  Alt(Characters(x, i),
  Alt(Decimal(x, i),
  Alt(Radix(x, i, {72, 104}, HexSet, "hex"),
  Alt(Radix(x, i, {66, 98}, BinSet, "bin"),
  Alt(Radix(x, i, {81, 113}, OctSet, "oct"),
  Alt(Quoted(x, i, SQ),
  Alt(Quoted(x, i, DQ),
      Arbitrary(x, i), legacy), legacy), legacy), legacy), legacy), legacy), legacy)

\* header_separator / argument_separator: 266-271, 336-341 (a missing ':' / ',' is soft)
Separator(x, i, b) ==
  LET i1 == Optional(Whitespace(x, i), i).i
      t == Tag(x, i1, b)
  IN IF ~IsOk(t) THEN Soft ELSE Ok(Optional(Whitespace(x, t.i), t.i).i, <<>>)

\* arguments: 356-379
RECURSIVE MoreArgs(_, _, _, _)
MoreArgs(x, i, args, legacy) ==
  LET s == Separator(x, i, COMMA) IN
  IF ~IsOk(s) THEN Ok(i, args)                       \* soft: no further parameter
  ELSE LET a == Argument(x, s.i, legacy) IN
       IF ~IsOk(a) THEN a
       ELSE IF Len(args) >= MaxArgs THEN Soft          \* push fails: UnexpectedNumberOfParameters
       ELSE MoreArgs(x, a.i, Append(args, a.v), legacy)
Arguments(x, i, legacy) ==
  LET a == Argument(x, i, legacy) IN IF ~IsOk(a) THEN a ELSE MoreArgs(x, a.i, <<a.v>>, legacy)

\* tree lookups (Node::child): the child of the node `p` spelled `name`
Child(trie, p, name) == LET c == Append(p, Upper(name)) IN IF c \in DOMAIN trie THEN Some(c) ELSE None

\* compound_command_program_header: 290-323 (with the repaired parent of an absolute header)
RECURSIVE MoreLevels(_, _, _, _, _)
MoreLevels(trie, x, i, node, hdr) ==
  LET s == Separator(x, i, COLON) IN
  IF ~IsOk(s) THEN Ok(i, [node |-> node, hdr |-> hdr])
  ELSE LET m == Mnemonic(x, s.i) IN
       IF ~IsOk(m) THEN m
       ELSE LET c == Child(trie, node, m.v) IN
            IF ~c.some THEN Fatal ELSE MoreLevels(trie, x, m.i, c.v, node)
Compound(trie, x, i, start) ==
  LET s == Separator(x, i, COLON)
      i1 == IF IsOk(s) THEN s.i ELSE i
      hdr == IF IsOk(s) THEN <<>> ELSE start
      m == Mnemonic(x, i1)
  IN IF ~IsOk(m) THEN m
     ELSE LET c == Child(trie, hdr, m.v) IN
          IF ~c.some THEN Fatal ELSE MoreLevels(trie, x, m.i, c.v, hdr)
\* common_command_program_header: 274-287
Common(trie, x, i) ==
  LET t == Tag(x, i, STAR) IN
  IF ~IsOk(t) THEN Fatal
  ELSE LET m == Mnemonic(x, t.i) IN
       IF ~IsOk(m) THEN m
       ELSE LET c == Child(trie, <<>>, <<STAR>> \o m.v) IN
            IF ~c.some THEN Fatal ELSE Ok(m.i, [node |-> c.v, hdr |-> <<>>, com |-> TRUE])
\* command_program_header: 326-333 (or_else on ANY failure of the compound form)
Header(trie, x, i, start) ==
  LET c == Compound(trie, x, i, start) IN
  IF IsOk(c) THEN Ok(c.i, [node |-> c.v.node, hdr |-> c.v.hdr, com |-> FALSE]) ELSE Common(trie, x, i)

\* parse: 382-431.  Verdict records like MCScpiSyntax!Verdicts.
ParseImpl(trie, start, x, legacy) ==
  LET i0 == Optional(Whitespace(x, 1), 1).i
      nl == Tag(x, i0, NL)
  IN IF IsOk(nl) THEN [v |-> "empty", n |-> nl.i - 1]
     ELSE LET h == Header(trie, x, i0, start) IN
          IF ~IsOk(h) THEN [v |-> IF h.k = "inc" THEN "inc" ELSE "err"]
          ELSE LET qm == Tag(x, h.i, QM)
                   q == IsOk(qm)
                   i1 == IF q THEN qm.i ELSE h.i
                   w == Whitespace(x, i1)
               IN IF w.k \in {"inc", "fatal"} THEN [v |-> IF w.k = "inc" THEN "inc" ELSE "err"]
                  ELSE LET ar == IF IsOk(w) THEN Arguments(x, w.i, legacy) ELSE Soft IN
                       IF IsOk(w) /\ ar.k \in {"inc", "fatal"} THEN [v |-> IF ar.k = "inc" THEN "inc" ELSE "err"]
                       ELSE LET args == IF IsOk(ar) THEN ar.v ELSE <<>>
                                i2 == IF IsOk(ar) THEN ar.i ELSE IF IsOk(w) THEN w.i ELSE i1
                                i3 == Optional(Whitespace(x, i2), i2).i
                                t1 == Tag(x, i3, NL)
                                t2 == Tag(x, i3, SEMI)
                            IN IF IsOk(t1) THEN [v |-> "acc", n |-> t1.i - 1, q |-> q, term |-> TRUE, args |-> args,
                                                 com |-> h.v.com, node |-> h.v.node, hdr |-> h.v.hdr]
                               ELSE IF IsOk(t2) THEN [v |-> "acc", n |-> t2.i - 1, q |-> q, term |-> FALSE, args |-> args,
                                                      com |-> h.v.com, node |-> h.v.node, hdr |-> h.v.hdr]
                               ELSE [v |-> IF t2.k = "inc" THEN "inc" ELSE "err"]
=============================================================================
