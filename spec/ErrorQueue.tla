----------------------------- MODULE ErrorQueue -----------------------------
(***************************************************************************)
(* The SCPI error/event queue (property C09; microscpi/src/error_queue.rs, *)
(* commands.rs).  A bounded FIFO of capacity K: an error arriving while    *)
(* the queue is full replaces the NEWEST stored entry by -350 "Queue       *)
(* overflow" and leaves older entries intact (IEEE 488.2, 21.8.1).         *)
(*                                                                         *)
(* Entries are records [n |-> number, txt |-> description bytes].          *)
(* The operators are used as the queue component of the run-level state    *)
(* (ScpiRun) and as a stand-alone state machine in MCErrorQueue.           *)
(***************************************************************************)
EXTENDS Integers, Sequences

QOverflowTxt == <<81, 117, 101, 117, 101, 32, 111, 118, 101, 114, 102, 108, 111, 119>>   \* "Queue overflow"
QOverflow == [n |-> -350, txt |-> QOverflowTxt]

\* K = 0 models an interface without an error queue (errors go to a plain ErrorHandler)
QPush(q, K, e) == IF K = 0 THEN q
                  ELSE IF Len(q) < K THEN Append(q, e)
                  ELSE [q EXCEPT ![K] = QOverflow]
QPop(q)   == IF q = <<>> THEN q ELSE Tail(q)
QFront(q) == q[1]
QCount(q) == Len(q)

\* legacy/mutant variants used by MCErrorQueue's negative controls
QPushDropOldest(q, K, e) == IF Len(q) < K THEN Append(q, e) ELSE Append(Tail(q), e)
QPushDropNew(q, K, e)    == IF Len(q) < K THEN Append(q, e) ELSE q
=============================================================================
