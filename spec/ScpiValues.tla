----------------------------- MODULE ScpiValues -----------------------------
(***************************************************************************)
(* Program data -> typed handler argument (property C03).                  *)
(*                                                                         *)
(* ABSTRACT: AllowedConv(tok, ty) is the SET of outcomes the property      *)
(* allows when the literal `tok` = [k |-> kind, t |-> text bytes] meets a  *)
(* parameter of type `ty`: Deliver(exact value) or Err(code).  Where the   *)
(* property leaves the outcome open the set has several members.           *)
(* Integers of any width are canonical decimal DIGIT SEQUENCES (TLC's      *)
(* integers are 32-bit): arithmetic is schoolbook on sequences.            *)
(*                                                                         *)
(* IMPLEMENTATION-SHAPED: FromStrRadix mirrors core's from_str_radix as    *)
(* used by value.rs:68-93 (digit-by-digit accumulate with overflow check)  *)
(* on miniature widths, checked against the abstract definition in         *)
(* MCScpiValues.                                                           *)
(***************************************************************************)
EXTENDS ScpiLex, Integers

\* ------------------------------------------------------ digit sequences
RECURSIVE StripZ(_)
StripZ(d) == IF d = <<>> THEN <<>> ELSE IF d[1] = 0 THEN StripZ(Tail(d)) ELSE d
Canon(d) == IF StripZ(d) = <<>> THEN <<0>> ELSE StripZ(d)
IsZero(d) == StripZ(d) = <<>>

RECURSIVE LexLeq(_, _, _)
LexLeq(a, b, i) == IF i > Len(a) THEN TRUE
                   ELSE IF a[i] < b[i] THEN TRUE ELSE IF a[i] > b[i] THEN FALSE ELSE LexLeq(a, b, i + 1)
\* a <= b for canonical digit sequences
DLeq(a, b) == Len(a) < Len(b) \/ (Len(a) = Len(b) /\ LexLeq(a, b, 1))

SmallDigits(c) == IF c = 0 THEN <<>> ELSE IF c < 10 THEN <<c>> ELSE <<c \div 10, c % 10>>
RECURSIVE MulAddR(_, _, _, _)
MulAddR(d, i, r, c) == IF i = 0 THEN SmallDigits(c)
                       ELSE LET v == d[i] * r + c IN MulAddR(d, i - 1, r, v \div 10) \o <<v % 10>>
MulAdd(d, r, x) == Canon(MulAddR(d, Len(d), r, x))          \* d * r + x

RECURSIVE FromRadixR(_, _, _, _)
FromRadixR(acc, vals, i, r) == IF i > Len(vals) THEN acc ELSE FromRadixR(MulAdd(acc, r, vals[i]), vals, i + 1, r)
FromRadix(vals, r) == FromRadixR(<<0>>, vals, 1, r)

DigitVal(b) == IF IsDigit(b) THEN b - 48 ELSE IF b \in 65..70 THEN b - 55 ELSE b - 87
DigitVals(t) == [i \in 1..Len(t) |-> DigitVal(t[i])]
Ascii(d) == [i \in 1..Len(d) |-> d[i] + 48]
Zeros(n) == [i \in 1..n |-> 0]

\* small natural number from digit values, saturating at `cap` (exponents)
RECURSIVE SmallNatR(_, _, _, _)
SmallNatR(acc, v, i, cap) == IF i > Len(v) THEN acc
                             ELSE LET a == acc * 10 + v[i] IN SmallNatR(IF a > cap THEN cap ELSE a, v, i + 1, cap)
SmallNat(v, cap) == SmallNatR(0, v, 1, cap)

\* -------------------------------------------------- decimal literal anatomy
\* tok.t of kind "dec":  [sign] digits* [. digits*] [E [sign] digits+]
IndexOf(t, S) == IF \E i \in 1..Len(t) : t[i] \in S THEN CHOOSE i \in 1..Len(t) : t[i] \in S /\ \A j \in 1..(i - 1) : t[j] \notin S
                 ELSE 0
DecAnatomy(t) ==
  LET neg  == t # <<>> /\ t[1] = MINUS
      body == IF t # <<>> /\ t[1] \in {PLUS, MINUS} THEN Tail(t) ELSE t
      ei   == IndexOf(body, {69, 101})
      mant == IF ei = 0 THEN body ELSE SubSeq(body, 1, ei - 1)
      expt == IF ei = 0 THEN <<>> ELSE SubSeq(body, ei + 1, Len(body))
      eneg == expt # <<>> /\ expt[1] = MINUS
      edig == IF expt # <<>> /\ expt[1] \in {PLUS, MINUS} THEN Tail(expt) ELSE expt
      di   == IndexOf(mant, {DOT})
      ip   == IF di = 0 THEN mant ELSE SubSeq(mant, 1, di - 1)
      fp   == IF di = 0 THEN <<>> ELSE SubSeq(mant, di + 1, Len(mant))
  IN [neg |-> neg, ip |-> DigitVals(ip), fp |-> DigitVals(fp), hasdot |-> di # 0, hasexp |-> ei # 0,
      eneg |-> eneg, e |-> SmallNat(DigitVals(edig), 1000)]

\* exact integer value of a decimal literal, if it has one:
\*   [int |-> TRUE, neg, mag (canonical digits), plain] or [int |-> FALSE]
\* big |-> TRUE: integral but with more than 40 digits (out of every range)
DecInt(t) ==
  LET a == DecAnatomy(t)
      digs == StripZ(a.ip \o a.fp)                 \* significant digits, scale = exp - |fp|
      scale == (IF a.eneg THEN 0 - a.e ELSE a.e) - Len(a.fp)
      plain == ~a.hasdot /\ ~a.hasexp
  IN IF digs = <<>> THEN [int |-> TRUE, neg |-> a.neg, mag |-> <<0>>, plain |-> plain, big |-> FALSE]
     ELSE IF scale >= 0
          THEN IF Len(digs) + scale > 40 THEN [int |-> TRUE, neg |-> a.neg, mag |-> <<>>, plain |-> plain, big |-> TRUE]
               ELSE [int |-> TRUE, neg |-> a.neg, mag |-> digs \o Zeros(scale), plain |-> plain, big |-> FALSE]
          ELSE LET cut == 0 - scale IN
               IF cut >= Len(digs) THEN [int |-> FALSE]
               ELSE IF \A i \in (Len(digs) - cut + 1)..Len(digs) : digs[i] = 0
                    THEN [int |-> TRUE, neg |-> a.neg, mag |-> SubSeq(digs, 1, Len(digs) - cut), plain |-> plain, big |-> FALSE]
                    ELSE [int |-> FALSE]

\* ----------------------------------------------------------- integer types
IntTypes == {"u8", "i8", "u16", "i16", "u32", "i32", "u64", "i64", "usize", "isize"}
Signed(ty) == ty \in {"i8", "i16", "i32", "i64", "isize"}
MaxMag(ty) == CASE ty = "u8" -> <<2,5,5>> [] ty = "i8" -> <<1,2,7>>
                [] ty = "u16" -> <<6,5,5,3,5>> [] ty = "i16" -> <<3,2,7,6,7>>
                [] ty = "u32" -> <<4,2,9,4,9,6,7,2,9,5>> [] ty = "i32" -> <<2,1,4,7,4,8,3,6,4,7>>
                [] ty \in {"u64", "usize"} -> <<1,8,4,4,6,7,4,4,0,7,3,7,0,9,5,5,1,6,1,5>>
                [] ty \in {"i64", "isize"} -> <<9,2,2,3,3,7,2,0,3,6,8,5,4,7,7,5,8,0,7>>
MinMag(ty) == CASE ty = "i8" -> <<1,2,8>> [] ty = "i16" -> <<3,2,7,6,8>>
                [] ty = "i32" -> <<2,1,4,7,4,8,3,6,4,8>>
                [] ty \in {"i64", "isize"} -> <<9,2,2,3,3,7,2,0,3,6,8,5,4,7,7,5,8,0,8>>
                [] OTHER -> <<0>>
InRange(neg, mag, ty) == IF neg /\ mag # <<0>> THEN DLeq(mag, MinMag(ty)) ELSE DLeq(mag, MaxMag(ty))

\* the argument value as the recording handler reports it (decimal text, like "{}")
IntVal(ty, neg, mag) == [t |-> "int", ty |-> ty, d |-> (IF neg /\ mag # <<0>> THEN <<MINUS>> ELSE <<>>) \o Ascii(mag)]
Deliver(v) == [ok |-> TRUE, v |-> v]
Err(n)     == [ok |-> FALSE, n |-> n]

RadixOf(k) == CASE k = "hex" -> 16 [] k = "bin" -> 2 [] k = "oct" -> 8 [] OTHER -> 10

ConvInt(tok, ty) ==
  CASE tok.k \in {"chr", "str", "blk"} -> {Err(-104)}
    [] tok.k \in {"hex", "bin", "oct"} ->
         LET mag == FromRadix(DigitVals(tok.t), RadixOf(tok.k)) IN
         IF Len(tok.t) <= 70 /\ InRange(FALSE, mag, ty) THEN {Deliver(IntVal(ty, FALSE, mag))} ELSE {Err(-120)}
    [] OTHER ->
         LET v == DecInt(tok.t) IN
         IF ~v.int \/ v.big THEN {Err(-120)}
         ELSE IF ~InRange(v.neg, v.mag, ty) THEN {Err(-120)}
         ELSE IF v.plain /\ ~(v.neg /\ v.mag = <<0>> /\ ~Signed(ty)) THEN {Deliver(IntVal(ty, v.neg, v.mag))}
         ELSE {Deliver(IntVal(ty, v.neg, v.mag)), Err(-120)}    \* "1.0", "1e2", "-0" into unsigned: free

BoolVal(b) == [t |-> "bool", v |-> b]
ON_ == <<79, 78>>  OFF_ == <<79, 70, 70>>  TRUE_ == <<84, 82, 85, 69>>  FALSE_ == <<70, 65, 76, 83, 69>>
ConvBool(tok) ==
  CASE tok.k = "chr" ->
         (CASE tok.t \in {ON_, Lower(ON_)} -> {Deliver(BoolVal(TRUE))}
            [] tok.t \in {OFF_, Lower(OFF_)} -> {Deliver(BoolVal(FALSE))}
            [] Upper(tok.t) \in {ON_, TRUE_} -> {Deliver(BoolVal(TRUE)), Err(-224)}
            [] Upper(tok.t) \in {OFF_, FALSE_} -> {Deliver(BoolVal(FALSE)), Err(-224)}
            [] OTHER -> {Err(-224)})
    [] tok.k = "dec" ->
         LET v == DecInt(tok.t) IN
         IF tok.t = <<49>> THEN {Deliver(BoolVal(TRUE))}
         ELSE IF tok.t = <<48>> THEN {Deliver(BoolVal(FALSE))}
         ELSE IF v.int /\ ~v.big /\ v.mag = <<1>> /\ ~v.neg THEN {Deliver(BoolVal(TRUE)), Err(-224)}
         ELSE IF v.int /\ ~v.big /\ v.mag = <<0>> THEN {Deliver(BoolVal(FALSE)), Err(-224)}
         ELSE {Err(-224)}
    [] tok.k \in {"hex", "bin", "oct"} ->
         LET mag == IF Len(tok.t) <= 70 THEN FromRadix(DigitVals(tok.t), RadixOf(tok.k)) ELSE <<9>> IN
         IF mag = <<1>> THEN {Deliver(BoolVal(TRUE)), Err(-224), Err(-104)}
         ELSE IF mag = <<0>> THEN {Deliver(BoolVal(FALSE)), Err(-224), Err(-104)}
         ELSE {Err(-224), Err(-104)}
    [] OTHER -> {Err(-224), Err(-104)}

\* floats: TLC cannot evaluate binary floating point; the outcome carries the literal and
\* the harness's exact-rational checker (bound to ScpiFloat's definition) decides the bits.
FloatVal(ty, lit) == [t |-> ty, lit |-> lit]
ConvFloat(tok, ty) ==
  CASE tok.k = "dec" -> {Deliver(FloatVal(ty, tok.t))}
    [] tok.k \in {"hex", "bin", "oct"} -> {Err(-104), Deliver(FloatVal(ty, tok.t))}
    [] OTHER -> {Err(-104)}

AllowedConv(tok, ty) ==
  CASE ty \in IntTypes -> ConvInt(tok, ty)
    [] ty = "bool" -> ConvBool(tok)
    [] ty = "str" -> IF tok.k = "str" THEN {Deliver([t |-> "str", b |-> tok.t])} ELSE {Err(-104)}
    [] ty = "blk" -> IF tok.k = "blk" THEN {Deliver([t |-> "blk", b |-> tok.t])} ELSE {Err(-104)}
    [] ty \in {"f32", "f64"} -> ConvFloat(tok, ty)

\* ------------------------------------------- implementation-shaped, mini widths
\* core::num::from_str_radix on a type with `bits` bits (signed or not), plain TLC integers.
\* Returns [ok, v].  Mirrors: empty -> Err; lone sign -> Err; '-' on unsigned -> InvalidDigit;
\* per digit: checked_mul(radix) then checked_add / checked_sub.
RECURSIVE Pow2(_)
Pow2(n) == IF n = 0 THEN 1 ELSE 2 * Pow2(n - 1)
MiniMax(bits, sg) == IF sg THEN Pow2(bits - 1) - 1 ELSE Pow2(bits) - 1
MiniMin(bits, sg) == IF sg THEN 0 - Pow2(bits - 1) ELSE 0
IsDigitOf(b, r) == (IsDigit(b) \/ IsHex(b)) /\ DigitVal(b) < r
RECURSIVE AccR(_, _, _, _, _, _, _)
AccR(acc, t, i, r, neg, lo, hi) ==
  IF i > Len(t) THEN [ok |-> TRUE, v |-> acc]
  ELSE IF ~IsDigitOf(t[i], r) THEN [ok |-> FALSE, v |-> 0]
  ELSE LET m == acc * r
           a == IF neg THEN m - DigitVal(t[i]) ELSE m + DigitVal(t[i])
       IN IF m < lo \/ m > hi \/ a < lo \/ a > hi THEN [ok |-> FALSE, v |-> 0]
          ELSE AccR(a, t, i + 1, r, neg, lo, hi)
FromStrRadix(t, r, bits, sg) ==
  IF t = <<>> THEN [ok |-> FALSE, v |-> 0]
  ELSE LET sign == t[1] \in {PLUS, MINUS}
           neg == t[1] = MINUS
           body == IF sign THEN Tail(t) ELSE t
       IN IF body = <<>> THEN [ok |-> FALSE, v |-> 0]
          ELSE IF neg /\ ~sg THEN [ok |-> FALSE, v |-> 0]
          ELSE AccR(0, body, 1, r, neg, MiniMin(bits, sg), MiniMax(bits, sg))
=============================================================================
