------------------------------- MODULE ScpiRun -------------------------------
(***************************************************************************)
(* Program messages: what a byte string given to Interface::run MEANS      *)
(* (properties C02, C03, C04, C06, C08, C09, C11 at message level).        *)
(*                                                                         *)
(* Two layers over the same unit scanner (ScpiSyntax), declarations        *)
(* (ScpiTree), conversions (ScpiValues) and response data (ScpiResponse):  *)
(*                                                                         *)
(* ABSTRACT  -  Accepts(cfg, q0, input, obs): the RELATION between an      *)
(*   input and an observed event sequence that the properties allow.       *)
(*   Messages are interpreted one by one from the root path; a unit's      *)
(*   header is the path AS WRITTEN (path \o mnemonics) looked up among the *)
(*   declared spellings; where the properties leave a choice (error number *)
(*   of a syntax error, abort/continue after a semantic fault, "1.0" into  *)
(*   an integer, ...) every allowed outcome is accepted.  Territory the    *)
(*   properties do not pin (input that is not a sequence of complete       *)
(*   messages, a faulty message with a newline inside a payload, a         *)
(*   response that does not fit its writer, lexical quirks) is FREE: the   *)
(*   relation holds trivially from there on, and the caller counts it.     *)
(*                                                                         *)
(* IMPLEMENTATION-SHAPED  -  ImplRun(cfg, q, path, x): the run loop of     *)
(*   microscpi/src/interface.rs:59-102 with execute (29-52) and the        *)
(*   generated dispatcher (microscpi-macros/src/lib.rs:48-83): one         *)
(*   iteration per parse call, trie lookup, the conversions the code       *)
(*   chooses, the three header-update sites.  Deterministic.  `cfg.legacy` *)
(*   switches individual repaired defects back on (regression demos).      *)
(*                                                                         *)
(* MCScpiRun checks  Accepts(input, ImplRun(input))  for every history it  *)
(* enumerates; the conformance harness checks Accepts(input, observed) on  *)
(* the real code.                                                          *)
(*                                                                         *)
(* Events (exactly the harness's JSON):                                    *)
(*   [e |-> "call", id |-> 0-based handler index, args |-> <<values>>]     *)
(*   [e |-> "err", n |-> number, txt |-> description bytes]                *)
(*   [e |-> "out", b |-> bytes]   consecutive writes merged                *)
(*   [e |-> "flush"]                                                       *)
(*   [e |-> "ret", rem |-> length of the returned remainder]               *)
(* cfg = [decls, spell, trie, K (queue capacity, 0 = none), legacy]        *)
(***************************************************************************)
EXTENDS ScpiSyntax, ScpiTree, ScpiValues, ScpiResponse, ErrorQueue, ScpiErrors

\* wildcards of the implementation-shaped layer: an error whose number/text the
\* specification does not predict (syntax errors) is written n = 0, txt = <<>>
ANYN == 0
ANYT == <<>>
ECall(id, args) == [e |-> "call", id |-> id, args |-> args]
EErr(n, txt)    == [e |-> "err", n |-> n, txt |-> txt]
EOut(b)         == [e |-> "out", b |-> b]
EFlush          == [e |-> "flush"]
ERet(k)         == [e |-> "ret", rem |-> k]

MkCfg(decls, K, dedup, legacy) ==
  [decls |-> decls, spell |-> [i \in DOMAIN decls |-> Spellings(decls[i])],
   trie |-> Build(decls, dedup).t, K |-> K, legacy |-> legacy]

\* a configuration for the abstract relation only (no trie: Accepts never looks at it) - used for
\* generated declaration sets, where building the macro-shaped trie of a wide set is costly
MkCfgAbs(decls, K) ==
  [decls |-> decls, spell |-> [i \in DOMAIN decls |-> Spellings(decls[i])], trie |-> EmptyTrie, K |-> K, legacy |-> {}]

\* ------------------------------------------------------------ error texts
T_UndefinedHeader == <<85,110,100,101,102,105,110,101,100,32,104,101,97,100,101,114>>
T_DataType  == <<68,97,116,97,32,116,121,112,101,32,101,114,114,111,114>>
T_Numeric   == <<78,117,109,101,114,105,99,32,100,97,116,97,32,101,114,114,111,114>>
T_IllegalPV == <<73,108,108,101,103,97,108,32,112,97,114,97,109,101,116,101,114,32,118,97,108,117,101>>
T_NParams   == <<85,110,101,120,112,101,99,116,101,100,32,110,117,109,98,101,114,32,111,102,32,112,97,114,97,109,101,116,101,114,115>>
T_TooMuch   == <<84,111,111,32,109,117,99,104,32,100,97,116,97>>
\* description of a standard error number (ScpiErrors); ANYT for numbers outside the table
\* (device-specific / custom errors carry their own text)
ErrText(n) == StdErrText(n)
TextOk(n, txt) == ErrText(n) = ANYT \/ txt = ErrText(n)

\* ----------------------------------------------------- header resolution
FullPath(path, u) == IF u.com THEN <<Upper(u.mn[1])>>
                     ELSE (IF u.abs THEN <<>> ELSE path) \o UpperAll(u.mn)
NextPath(path, u) == IF u.term THEN <<>> ELSE IF u.com THEN path ELSE Front(FullPath(path, u))
AbsIds(cfg, full, q) == {i \in DOMAIN cfg.decls : cfg.decls[i].q = q /\ full \in cfg.spell[i]}

\* ------------------------------------------------------ handler behaviour
ArgToResp(a) == CASE a.t = "int" -> [t |-> "int", d |-> a.d]
                  [] a.t = "bool" -> [t |-> "bool", v |-> a.v]
                  [] OTHER -> a                                    \* str, blk
VersionTxt == <<49, 57, 57, 57, 46, 48>>    \* "1999.0"
IntResp(n) == [t |-> "int", d |-> IF n < 0 THEN <<MINUS>> \o NatAscii(0 - n) ELSE NatAscii(n)]
\* result of invoking the handler of declaration d: [ok, v, q] or [ok |-> FALSE, n, txt, q]
Handler(d, vals, q) ==
  CASE d.beh.k = "ok"    -> [ok |-> TRUE, v |-> [t |-> "unit"], q |-> q]
    [] d.beh.k = "const" -> [ok |-> TRUE, v |-> d.beh.v, q |-> q]
    [] d.beh.k = "echo"  -> [ok |-> TRUE, v |-> ArgToResp(vals[d.beh.i + 1]), q |-> q]
    [] d.beh.k = "fail"  -> [ok |-> FALSE, n |-> d.beh.n, txt |-> d.beh.txt, q |-> q]
    [] d.beh.k = "table" -> [ok |-> TRUE, v |-> d.beh.vals[SmallNat(DigitVals(vals[1].d), 100000) + 1], q |-> q]
    [] d.beh.k = "float" -> [ok |-> TRUE, v |-> [t |-> "flt", ty |-> d.beh.ty, bits |-> vals[1].d], q |-> q]
    [] d.beh.k = "version" -> [ok |-> TRUE, v |-> [t |-> "chr", b |-> VersionTxt], q |-> q]
    [] d.beh.k = "errcount" -> [ok |-> TRUE, v |-> IntResp(QCount(q)), q |-> q]
    [] d.beh.k = "errnext" ->
         IF q = <<>> THEN [ok |-> TRUE, v |-> [t |-> "tup", items |-> <<IntResp(0), [t |-> "str", b |-> <<>>]>>], q |-> q]
         ELSE [ok |-> TRUE, v |-> [t |-> "tup", items |-> <<IntResp(QFront(q).n), [t |-> "str", b |-> QFront(q).txt]>>],
               q |-> QPop(q)]

(***************************************************************************)
(* ABSTRACT LAYER                                                          *)
(***************************************************************************)
\* message anatomy: the units of the message that starts at x[pos], by ideal scanning
\*   kind "clean"    all units well-formed, terminator found       (len = index of it)
\*        "synfault" a unit is syntactically wrong; the message ends at the first NL
\*        "partial"  x ends before the message does
\*        "free"     a lexical quirk the properties do not pin
\*   emb: a newline occurs inside a payload of this message
RECURSIVE MsgScanR(_, _, _, _, _)
MsgScanR(x, start, pos, units, emb) ==
  LET s == ScanFrom(S0, x, pos) IN
  IF s.quirk THEN [kind |-> "free", len |-> 0, units |-> units, emb |-> emb]
  ELSE CASE s.ph = "EMPTY" -> [kind |-> "clean", len |-> s.n, units |-> units, emb |-> emb]
         [] s.ph = "ACC" ->
              LET e2 == emb \/ \E j \in pos..(s.n - 1) : x[j] = NL IN
              IF s.term THEN [kind |-> "clean", len |-> s.n, units |-> Append(units, s), emb |-> e2]
              ELSE MsgScanR(x, start, s.n + 1, Append(units, s), e2)
         [] s.ph = "REJ" ->
              LET nl == FirstNL(x, start) IN
              IF nl = 0 THEN [kind |-> "partial", len |-> 0, units |-> units, emb |-> emb]
              ELSE IF emb \/ nl < s.n
                   THEN \* a newline inside a payload AND a syntax fault: where the message ends is
                        \* not defined by the properties (C06 speaks of complete messages only)
                        [kind |-> "free", len |-> 0, units |-> units, emb |-> TRUE]
                   ELSE [kind |-> "synfault", len |-> nl, units |-> Append(units, s), emb |-> FALSE]
         [] OTHER -> [kind |-> "partial", len |-> 0, units |-> units, emb |-> emb]
MsgScan(x, start) == MsgScanR(x, start, start, <<>>, FALSE)

\* matcher state: i = next observed event, q = error queue, free = unpinned territory
\* reached, room = bytes the response writer still takes (-1 = unbounded),
\* owed = responses not yet seen on the transport (process mode only)
IsEv(obs, i, e) == i <= Len(obs) /\ obs[i].e = e
PushObs(cfg, st, ev) == [st EXCEPT !.q = QPush(@, cfg.K, [n |-> ev.n, txt |-> ev.txt]), !.i = @ + 1]
Freed(st) == [st EXCEPT !.free = TRUE]

\* Is `a` (an observed argument value) the delivery of an allowed conversion outcome?
ArgAllowed(tok, ty, a) ==
  IF ty \in {"f32", "f64"} THEN a.t = ty /\ \E o \in AllowedConv(tok, ty) : o.ok
  ELSE Deliver(a) \in AllowedConv(tok, ty)
CanDeliver(tok, ty) == \E o \in AllowedConv(tok, ty) : o.ok

\* the error event a faulty unit must produce, then all-or-none of the rest
FaultAlts(cfg, st, obs, emb, nOk(_)) ==
  IF IsEv(obs, st.i, "err") /\ nOk(obs[st.i])
  THEN LET s2 == PushObs(cfg, st, obs[st.i]) IN
       IF emb THEN {[st |-> Freed(s2), cont |-> "abort"]}
       ELSE {[st |-> s2, cont |-> "go"], [st |-> s2, cont |-> "abort"]}
  ELSE {}

\* the response to a successful query.  mode "run": an `out` event carrying response data
\* that decodes to v followed by NL, then a `flush`.  mode "proc": the value is owed to the
\* transport.  A response that does not fit the writer's remaining room: free.
RespAlts(cfg, st, obs, v, mode, at) ==
  LET need == IF v.t = "flt" THEN 400 ELSE Len(Encode(v)) + 1 IN
  IF st.room >= 0 /\ need > st.room THEN {[st |-> Freed(st), cont |-> "abort"]}
  ELSE IF mode = "proc"
       THEN {[st |-> [st EXCEPT !.owed = Append(@, [v |-> v, at |-> at]),
                                !.room = IF @ < 0 THEN @ ELSE @ - need], cont |-> "go"]}
       ELSE IF IsEv(obs, st.i, "out") /\ IsEv(obs, st.i + 1, "flush")
               /\ obs[st.i].b # <<>> /\ Last(obs[st.i].b) = NL /\ Decodes(Front(obs[st.i].b), v)
            THEN {[st |-> [st EXCEPT !.i = @ + 2, !.room = IF @ < 0 THEN @ ELSE @ - Len(obs[st.i].b)], cont |-> "go"]}
            ELSE {}

IsStd(d) == d.beh.k \in {"version", "errnext", "errcount"}

\* all continuations of executing the well-formed unit u at path `path`
UnitAlts(cfg, st, path, u, obs, emb, mode) ==
  LET full == FullPath(path, u)
      ids == AbsIds(cfg, full, u.q)
  IN
  IF ids = {} THEN FaultAlts(cfg, st, obs, emb, LAMBDA ev : ev.n = -113 /\ ev.txt = T_UndefinedHeader)
  ELSE LET id == CHOOSE i \in ids : TRUE
           d == cfg.decls[id]
           n == Len(d.args)
       IN
       IF Len(u.args) # n THEN FaultAlts(cfg, st, obs, emb, LAMBDA ev : TextOk(ev.n, ev.txt))
       ELSE
         \* (b) parameter k is the first one rejected: its error, handler not invoked
         (UNION {IF \A j \in 1..(k - 1) : CanDeliver(u.args[j], d.args[j])
                 THEN FaultAlts(cfg, st, obs, emb,
                        LAMBDA ev : Err(ev.n) \in AllowedConv(u.args[k], d.args[k]) /\ TextOk(ev.n, ev.txt))
                 ELSE {} : k \in 1..n})
         \cup
         \* (a) every parameter delivered: the call, then the handler's outcome
         (IF IsStd(d)
          THEN \* SYSTem:VERSion? / SYSTem:ERRor...? are the library's own functions: there is no
               \* user handler to observe, only the response
               LET h == Handler(d, <<>>, st.q) IN
               RespAlts(cfg, [st EXCEPT !.q = h.q], obs, h.v, mode, IF st.dl = 0 THEN 1000000000 ELSE st.dl - 1)
          ELSE IF IsEv(obs, st.i, "call") /\ obs[st.i].id = id - 1 /\ Len(obs[st.i].args) = n
             /\ \A k \in 1..n : ArgAllowed(u.args[k], d.args[k], obs[st.i].args[k])
          THEN LET h == Handler(d, obs[st.i].args, st.q)
                   s1 == [st EXCEPT !.i = @ + 1, !.q = h.q]
               IN IF ~h.ok
                  THEN FaultAlts(cfg, s1, obs, emb, LAMBDA ev : ev.n = h.n /\ ev.txt = h.txt)
                  ELSE IF d.q THEN RespAlts(cfg, s1, obs, h.v, mode, IF mode = "proc" THEN obs[st.i].ix ELSE 0)
                       ELSE {[st |-> s1, cont |-> "go"]}
          ELSE {})

\* units k.. of one message; returns the set of matcher states after the message
RECURSIVE MsgFrom(_, _, _, _, _, _, _, _)
MsgFrom(cfg, st, path, us, k, obs, emb, mode) ==
  IF st.free \/ k > Len(us) THEN {st}
  ELSE LET u == us[k] IN
       IF u.ph = "REJ"
       THEN \* syntax fault: exactly one error (any number), nothing else from this message
            IF emb THEN {Freed(st)}
            ELSE IF IsEv(obs, st.i, "err") /\ TextOk(obs[st.i].n, obs[st.i].txt) THEN {PushObs(cfg, st, obs[st.i])} ELSE {}
       ELSE UNION {IF r.cont = "abort" THEN {r.st}
                   ELSE MsgFrom(cfg, r.st, NextPath(path, u), us, k + 1, obs, emb, mode)
                   : r \in UnitAlts(cfg, st, path, u, obs, emb, mode)}

\* a whole run call: x from position pos (a message start), S the set of matcher states
RECURSIVE RunFrom(_, _, _, _, _)
RunFrom(cfg, S, x, pos, obs) ==
  IF S = {} THEN {}
  ELSE IF \E st \in S : st.free THEN {CHOOSE st \in S : st.free}
  ELSE IF pos > Len(x) THEN {st \in S : IsEv(obs, st.i, "ret") /\ obs[st.i].rem = 0 /\ st.i = Len(obs)}
  ELSE LET m == MsgScan(x, pos) IN
       IF m.kind \in {"partial", "free"} THEN {Freed(CHOOSE st \in S : TRUE)}
       ELSE RunFrom(cfg, UNION {MsgFrom(cfg, st, <<>>, m.units, 1, obs, m.emb, "run") : st \in S},
                    x, m.len + 1, obs)

\* dl (process mode): index of the first read issued after the current message was complete
St0(q, room) == [i |-> 1, q |-> q, free |-> FALSE, room |-> room, owed |-> <<>>, dl |-> 0]
\* the relation: these observed events are an allowed outcome of run(x)
RunEnd(cfg, q0, room, x, obs) == RunFrom(cfg, {St0(q0, room)}, x, 1, obs)
Accepts(cfg, q0, room, x, obs) == RunEnd(cfg, q0, room, x, obs) # {}
\* ... and they were decided on pinned territory all the way
Pinned(cfg, q0, room, x, obs) == \E st \in RunEnd(cfg, q0, room, x, obs) : ~st.free

(***************************************************************************)
(* IMPLEMENTATION-SHAPED LAYER                                             *)
(***************************************************************************)
\* value.rs: the conversion the code performs (a member of AllowedConv, checked by
\* MCScpiRun's ImplConvAllowed)
ImplConv(tok, ty) ==
  CASE ty \in IntTypes ->
         IF tok.k \in {"chr", "str", "blk"} THEN Err(-104)
         ELSE LET A == ConvInt(tok, ty) IN IF Err(-120) \in A THEN Err(-120) ELSE CHOOSE o \in A : TRUE
    [] ty = "bool" ->
         IF tok.k = "chr" /\ tok.t \in {ON_, Lower(ON_), TRUE_, Lower(TRUE_)} THEN Deliver(BoolVal(TRUE))
         ELSE IF tok.k = "chr" /\ tok.t \in {OFF_, Lower(OFF_), FALSE_, Lower(FALSE_)} THEN Deliver(BoolVal(FALSE))
         ELSE IF tok.k = "dec" /\ tok.t = <<49>> THEN Deliver(BoolVal(TRUE))
         ELSE IF tok.k = "dec" /\ tok.t = <<48>> THEN Deliver(BoolVal(FALSE))
         ELSE Err(-224)
    [] ty \in {"f32", "f64"} -> IF tok.k = "dec" THEN Deliver(FloatVal(ty, tok.t)) ELSE Err(-104)
    [] OTHER -> CHOOSE o \in AllowedConv(tok, ty) : TRUE

\* left-to-right try_into()? chain of the generated dispatcher: index of the first failing
\* parameter (0 if none)
FirstBad(u, d) == IF \E k \in 1..Len(d.args) : ~ImplConv(u.args[k], d.args[k]).ok
                  THEN CHOOSE k \in 1..Len(d.args) : ~ImplConv(u.args[k], d.args[k]).ok
                                                     /\ \A j \in 1..(k - 1) : ImplConv(u.args[j], d.args[j]).ok
                  ELSE 0

\* header walk of parser.rs:290-323: every completed mnemonic must be a child
HeaderWalkOk(cfg, path, s) ==
  IF s.mn = <<>> THEN TRUE
  ELSE IF s.com THEN TrieHasNode(cfg.trie, <<Upper(s.mn[1])>>)
  ELSE LET base == IF s.abs THEN <<>> ELSE path
           full == base \o UpperAll(s.mn)
       IN \A k \in (Len(base) + 1)..Len(full) : TrieHasNode(cfg.trie, SubSeq(full, 1, k))

\* legacy D1: an absolute header with a single mnemonic keeps the OLD path as parent
ImplNextPath(cfg, path, u) ==
  IF u.term THEN <<>>
  ELSE IF u.com THEN path
  ELSE IF "abs" \in cfg.legacy /\ u.abs /\ Len(u.mn) = 1 THEN path
  ELSE Front(FullPath(path, u))

\* r = [evs, q, path, room, sloppy]; returns r extended with rem
RECURSIVE ImplRunR(_, _, _, _)
ImplRunR(cfg, r, x, pos) ==
  IF pos > Len(x) THEN [r EXCEPT !.rem = 0]
  ELSE
  LET s == ScanFrom(S0, x, pos)
      errSkip(ev) ==            \* parse error: report, discard through the next newline
        LET nl == FirstNL(x, pos)
            r1 == [r EXCEPT !.evs = Append(@, ev), !.q = QPush(@, cfg.K, [n |-> ev.n, txt |-> ev.txt])]
        IN IF "error" \in cfg.legacy \/ nl = 0 THEN [r1 EXCEPT !.rem = Len(x) - pos + 1]
           ELSE ImplRunR(cfg, [r1 EXCEPT !.path = <<>>], x, nl + 1)
  IN
  IF ~HeaderWalkOk(cfg, r.path, s) THEN errSkip(EErr(-113, T_UndefinedHeader))
  ELSE IF "choice" \in cfg.legacy /\ s.ph \in {"ADQ", "ASQ"} THEN errSkip(EErr(ANYN, ANYT))
  ELSE CASE s.ph = "EMPTY" ->
              ImplRunR(cfg, IF "empty" \in cfg.legacy THEN r ELSE [r EXCEPT !.path = <<>>], x, s.n + 1)
         [] s.ph = "REJ" -> errSkip(EErr(ANYN, ANYT))
         [] s.ph = "ACC" ->
              LET full == FullPath(r.path, s)
                  id == TrieSlot(cfg.trie, full, s.q)
                  np == ImplNextPath(cfg, r.path, s)
                  fault(ev) == [r EXCEPT !.evs = Append(@, ev), !.path = np,
                                         !.q = QPush(@, cfg.K, [n |-> ev.n, txt |-> ev.txt])]
              IN
              IF id = 0 THEN ImplRunR(cfg, fault(EErr(-113, T_UndefinedHeader)), x, s.n + 1)
              ELSE LET d == cfg.decls[id] IN
                   IF Len(s.args) # Len(d.args) THEN ImplRunR(cfg, fault(EErr(-115, T_NParams)), x, s.n + 1)
                   ELSE LET bad == FirstBad(s, d) IN
                        IF bad # 0
                        THEN LET c == ImplConv(s.args[bad], d.args[bad]).n IN
                             ImplRunR(cfg, fault(EErr(c, ErrText(c))), x, s.n + 1)
                        ELSE LET vals == [k \in 1..Len(d.args) |-> ImplConv(s.args[k], d.args[k]).v]
                                 h == Handler(d, vals, r.q)
                                 r1 == [r EXCEPT !.evs = IF IsStd(d) THEN @ ELSE Append(@, ECall(id - 1, vals)),
                                                  !.q = h.q, !.path = np]
                             IN IF ~h.ok
                                THEN ImplRunR(cfg, [r1 EXCEPT !.evs = Append(@, EErr(h.n, h.txt)),
                                                     !.q = QPush(@, cfg.K, [n |-> h.n, txt |-> h.txt])], x, s.n + 1)
                                ELSE IF ~d.q THEN ImplRunR(cfg, r1, x, s.n + 1)
                                ELSE LET resp == EncodeL(h.v, "quotes" \in cfg.legacy) \o <<NL>> IN
                                     IF r1.room >= 0 /\ Len(resp) > r1.room
                                     THEN \* does not fit: TooMuchData is reported, what was written is unspecified
                                          ImplRunR(cfg, [r1 EXCEPT !.evs = Append(@, EErr(-223, T_TooMuch)), !.sloppy = TRUE,
                                                         !.q = QPush(@, cfg.K, [n |-> -223, txt |-> T_TooMuch])], x, s.n + 1)
                                     ELSE ImplRunR(cfg, [r1 EXCEPT !.evs = @ \o <<EOut(resp), EFlush>>,
                                                         !.room = IF @ < 0 THEN @ ELSE @ - Len(resp)], x, s.n + 1)
         [] OTHER -> [r EXCEPT !.rem = Len(x) - pos + 1]       \* Incomplete: return the unit untouched

ImplRun0(q, path, room) == [evs |-> <<>>, q |-> q, path |-> path, room |-> room, sloppy |-> FALSE, rem |-> 0]
ImplRun(cfg, q, path, room, x) == ImplRunR(cfg, ImplRun0(q, path, room), x, 1)
\* the complete observation of one run call as the harness records it
ImplObs(cfg, q, room, x) == LET r == ImplRun(cfg, q, <<>>, room, x) IN Append(r.evs, ERet(r.rem))
=============================================================================
