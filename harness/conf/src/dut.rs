//! Device-under-test abstraction: one `Dut` per macro-generated interface.

use std::panic::{catch_unwind, AssertUnwindSafe};

use microscpi::parser::{self, ParseError};
use microscpi::{Node, Value};
use serde_json::{json, Value as J};

use crate::rec::{self, bytes, Script};

#[derive(Clone, Debug)]
pub enum WriterSpec {
    /// pass-through recording writer, optional capacity
    Rec(Option<usize>),
    /// std::vec::Vec<u8>
    Std,
    /// heapless::Vec<u8, C>
    Heapless(usize),
}

pub trait Dut {
    /// discard the interface instance and build a new one (fresh error queue etc.)
    fn fresh(&mut self);
    /// `Interface::run` on `input`; events, then a final `ret`/`panic` event
    fn run(&mut self, input: &[u8], w: &WriterSpec) -> Vec<J>;
    /// `Interface::process::<N>` on a scripted transport; events incl. final `end`/`panic`
    fn process(&mut self, n: usize, script: Script) -> Vec<J>;
    /// root node of the generated tree
    fn root(&self) -> &'static Node;
    /// error-queue access for the direct C09 binding: (count, pop) — None if no queue
    fn queue_op(&mut self, _op: &str, _err: Option<microscpi::Error>) -> Option<J> {
        None
    }
}

pub fn panic_msg(p: Box<dyn std::any::Any + Send>) -> String {
    if let Some(s) = p.downcast_ref::<&str>() {
        s.to_string()
    }
    else if let Some(s) = p.downcast_ref::<String>() {
        s.clone()
    }
    else {
        "?".into()
    }
}

pub fn node_sig(n: &'static Node) -> J {
    let mut ch: Vec<Vec<u8>> =
        n.children.iter().map(|c| c.0.to_ascii_uppercase().into_bytes()).collect();
    ch.sort();
    json!({
        "cmd": n.command.map(|x| x as i64).unwrap_or(-1),
        "qry": n.query.map(|x| x as i64).unwrap_or(-1),
        "ch": ch.iter().map(|c| bytes(c)).collect::<Vec<_>>(),
    })
}

pub fn value_j(v: &Value<'_>) -> J {
    let (k, t): (&str, &[u8]) = match v {
        Value::String(s) => ("str", s.as_bytes()),
        Value::Characters(s) => ("chr", s.as_bytes()),
        Value::Decimal(s) => ("dec", s.as_bytes()),
        Value::Hexadecimal(s) => ("hex", s.as_bytes()),
        Value::Binary(s) => ("bin", s.as_bytes()),
        Value::Octal(s) => ("oct", s.as_bytes()),
        Value::Arbitrary(b) => ("blk", b),
        // a program data kind this harness does not know (added by a change under test): recorded, then judged
        #[allow(unreachable_patterns)]
        _ => ("unknown", &[]),
    };
    json!({"k": k, "t": bytes(t)})
}

/// `parser::parse` from the node reached by `start` (a spelled path from the root).
pub fn parse_obs(root: &'static Node, start: &[String], input: &[u8]) -> J {
    let mut node = root;
    for s in start {
        match node.child(s) {
            Some(n) => node = n,
            None => return json!({"v": "nostart"}),
        }
    }
    let r = catch_unwind(AssertUnwindSafe(|| {
        let _c = rec::Counted::new();
        parser::parse(root, node, input)
    }));
    match r {
        Err(p) => json!({"v": "panic", "msg": panic_msg(p)}),
        Ok(Err(ParseError::Incomplete)) => json!({"v": "inc"}),
        Ok(Err(e)) => {
            let e: microscpi::Error = e.into();
            json!({"v": "err", "code": e.number()})
        }
        Ok(Ok((rem, call))) => {
            let suffix = rem.is_empty()
                || (rem.len() <= input.len()
                    && rem.as_ptr() as usize + rem.len()
                        == input.as_ptr() as usize + input.len());
            let n = input.len() - rem.len().min(input.len());
            match call {
                None => json!({"v": "empty", "n": n, "suffix": suffix}),
                Some(c) => json!({
                    "v": "acc", "n": n, "suffix": suffix, "q": c.query, "term": c.terminated,
                    "args": c.args.iter().map(value_j).collect::<Vec<_>>(),
                    "node": node_sig(c.node),
                    "com": c.header.is_none(),
                    "hdr": c.header.map(node_sig).unwrap_or(J::Null),
                }),
            }
        }
    }
}

/// Implements `Dut` for a generated interface type.
/// `$new` builds a fresh instance; `$caps` heapless writer capacities; `$ns` buffer sizes.
#[macro_export]
macro_rules! impl_dut {
    ($wrap:ident, $ty:ty, $new:expr, [$($cap:literal),*], [$($n:literal),*]) => {
        pub struct $wrap(pub $ty);
        impl $wrap {
            pub fn boxed() -> Box<dyn $crate::dut::Dut> {
                Box::new($wrap($new))
            }
        }
        impl $crate::dut::Dut for $wrap {
            fn fresh(&mut self) {
                self.0 = $new;
            }
            fn root(&self) -> &'static ::microscpi::Node {
                use ::microscpi::Interface;
                self.0.root_node()
            }
            fn run(&mut self, input: &[u8], w: &$crate::dut::WriterSpec) -> Vec<::serde_json::Value> {
                use ::microscpi::Interface;
                use ::serde_json::json;
                use $crate::dut::WriterSpec;
                use $crate::rec;
                let _ = rec::take_log();
                rec::allocs_reset();
                let iface = &mut self.0;
                let r = std::panic::catch_unwind(std::panic::AssertUnwindSafe(|| {
                    match w {
                        WriterSpec::Rec(cap) => {
                            let mut wr = rec::RecWriter::new(*cap);
                            let rem = {
                                let _c = rec::Counted::new();
                                rec::block_on(iface.run(input, &mut wr))
                            };
                            (rem, None)
                        }
                        WriterSpec::Std => {
                            let mut wr: Vec<u8> = Vec::new();
                            let rem = rec::block_on(iface.run(input, &mut wr));
                            (rem, Some(wr))
                        }
                        WriterSpec::Heapless(cap) => match *cap {
                            $($cap => {
                                let mut wr: heapless::Vec<u8, $cap> = heapless::Vec::new();
                                let rem = {
                                    let _c = rec::Counted::new();
                                    rec::block_on(iface.run(input, &mut wr))
                                };
                                (rem, Some(wr.to_vec()))
                            })*
                            _ => { eprintln!("harness: heapless capacity {} not instantiated", cap); std::process::exit(2) }
                        },
                    }
                }));
                let mut evs = rec::take_log();
                match r {
                    Err(p) => evs.push(json!({"e": "panic", "msg": $crate::dut::panic_msg(p)})),
                    Ok((rem, out)) => {
                        if let Some(o) = out {
                            evs.push(json!({"e": "wout", "b": rec::bytes(&o)}));
                        }
                        let suffix = rem.is_empty()
                            || (rem.len() <= input.len()
                                && rem.as_ptr() as usize + rem.len()
                                    == input.as_ptr() as usize + input.len());
                        evs.push(json!({"e": "ret", "rem": rem.len(), "suffix": suffix,
                                        "allocs": rec::allocs(), "polls": rec::polls()}));
                    }
                }
                evs
            }
            #[allow(unused_variables, unreachable_code)]
            fn process(&mut self, n: usize, script: $crate::rec::Script) -> Vec<::serde_json::Value> {
                use ::microscpi::Interface;
                use ::serde_json::json;
                use $crate::rec;
                let _ = rec::take_log();
                rec::allocs_reset();
                let iface = &mut self.0;
                let mut ad = rec::ScriptAdapter::new(script);
                let r = std::panic::catch_unwind(std::panic::AssertUnwindSafe(|| {
                    let _c = rec::Counted::new();
                    match n {
                        $($n => rec::block_on(iface.process::<$n, _>(&mut ad)),)*
                        _ => { eprintln!("harness: buffer size {} not instantiated", n); std::process::exit(2) }
                    }
                }));
                let mut evs = rec::take_log();
                match r {
                    Err(p) => evs.push(json!({"e": "panic", "msg": $crate::dut::panic_msg(p)})),
                    Ok(Ok(())) => evs.push(json!({"e": "end", "res": "ok"})),
                    Ok(Err(rec::TErr::Eof)) => evs.push(json!({"e": "end", "res": "eof",
                                        "allocs": rec::allocs()})),
                    Ok(Err(rec::TErr::Injected(t))) => evs.push(json!({"e": "end", "res": "injected", "tok": t,
                                        "allocs": rec::allocs()})),
                }
                evs
            }
        }
    };
}
