//! The harness application proper (shared by `conf` and the generated-tree binary).
use std::io::{BufRead, BufReader, BufWriter, Write};
use std::sync::atomic::{AtomicU64, Ordering};
use std::sync::{Arc, Mutex};

use serde_json::{json, Value as J};

use crate::{cases, dut, rec};

fn watchdog(progress: Arc<AtomicU64>, current: Arc<Mutex<String>>, report: String, secs: u64) {
    std::thread::spawn(move || {
        let mut last = progress.load(Ordering::Relaxed);
        let mut idle = 0;
        loop {
            std::thread::sleep(std::time::Duration::from_millis(500));
            let now = progress.load(Ordering::Relaxed);
            if now == last {
                idle += 1;
            }
            else {
                idle = 0;
                last = now;
            }
            if idle >= secs * 2 {
                let cur = current.lock().map(|c| c.clone()).unwrap_or_default();
                let case: J = serde_json::from_str(&cur).unwrap_or(J::Null);
                let rep = json!({"hang": true, "case": case});
                let _ = std::fs::write(&report, serde_json::to_string(&rep).unwrap());
                eprintln!("WATCHDOG: case did not return within {secs}s");
                std::process::exit(3);
            }
        }
    });
}

pub fn main_impl() {
    let args: Vec<String> = std::env::args().collect();
    if args.len() < 4 {
        eprintln!("usage: conf replay|exec <cases.ndjson> <out>");
        std::process::exit(2);
    }
    std::panic::set_hook(Box::new(|_| {}));
    let mode = args[1].as_str();
    let input = std::fs::File::open(&args[2]).unwrap_or_else(|e| {
        eprintln!("harness: cannot open {}: {e}", args[2]);
        std::process::exit(2)
    });
    let max_fail: usize = std::env::var("CONF_MAX_FAIL").ok().and_then(|s| s.parse().ok()).unwrap_or(20);
    let wd_secs: u64 = std::env::var("CONF_WATCHDOG_S").ok().and_then(|s| s.parse().ok()).unwrap_or(20);
    let progress = Arc::new(AtomicU64::new(0));
    let current = Arc::new(Mutex::new(String::new()));
    watchdog(progress.clone(), current.clone(), format!("{}.hang", args[3]), wd_secs);

    let mut duts = cases::Duts::new();
    let reader = BufReader::new(input);
    match mode {
        "replay" => {
            let mut total = 0u64;
            let mut ok = 0u64;
            let mut nontrivial = 0u64;
            let mut alt_hist: Vec<u64> = Vec::new();
            let mut fails: Vec<J> = Vec::new();
            let mut nfail = 0u64;
            let mut allocs = 0u64;
            for line in reader.lines() {
                let line = line.unwrap();
                if line.trim().is_empty() {
                    continue;
                }
                let c: J = match serde_json::from_str(&line) {
                    Ok(c) => c,
                    Err(e) => {
                        eprintln!("harness: bad case line: {e}");
                        std::process::exit(2)
                    }
                };
                *current.lock().unwrap() = line.clone();
                let obs = cases::execute(&mut duts, &c);
                progress.fetch_add(1, Ordering::Relaxed);
                total += 1;
                let pobs = cases::project(&obs);
                let (good, alt) = cases::judge(&c, &pobs);
                if let Some(evs) = obs.as_array() {
                    if evs.iter().any(|e| matches!(e["e"].as_str(), Some("call" | "err" | "out" | "write"))) {
                        nontrivial += 1;
                    }
                    for e in evs {
                        if let Some(a) = e.get("allocs").and_then(|a| a.as_u64()) {
                            allocs += a;
                        }
                    }
                }
                else if obs["v"] == "acc" {
                    nontrivial += 1;
                }
                if good {
                    ok += 1;
                    if alt_hist.len() <= alt {
                        alt_hist.resize(alt + 1, 0);
                    }
                    alt_hist[alt] += 1;
                }
                else {
                    nfail += 1;
                    if fails.len() < max_fail {
                        fails.push(json!({"case": c, "obs": pobs}));
                    }
                }
            }
            let rep = json!({"total": total, "ok": ok, "fail": nfail, "nontrivial": nontrivial,
                             "alt_hist": alt_hist, "allocs": allocs, "fails": fails});
            std::fs::write(&args[3], serde_json::to_string(&rep).unwrap()).unwrap();
        }
        "parsex" => {
            // raw REPLAY lines of MCScpiSyntax: <<"REPLAY", "{\"x\":[..],\"exp\":[[alts per start]..]}">>
            // args: parsex <raw> <report> <iface> <starts json: [[[bytes]..]..]>
            let iface = args.get(4).cloned().unwrap_or_else(|| "main".into());
            let starts: J = serde_json::from_str(args.get(5).map(|s| s.as_str()).unwrap_or("[[]]")).unwrap();
            let starts: Vec<Vec<String>> = starts
                .as_array()
                .unwrap()
                .iter()
                .map(|st| st.as_array().unwrap().iter().map(|m| String::from_utf8(cases::jbytes(m)).unwrap()).collect())
                .collect();
            let root = duts.get(&iface).root();
            let (mut total, mut ok, mut nontrivial, mut nfail, mut skipped) = (0u64, 0u64, 0u64, 0u64, 0u64);
            let mut fails: Vec<J> = Vec::new();
            let norm = |sig: &mut J| {
                if let Some(ch) = sig.get_mut("ch").and_then(|c| c.as_array_mut()) {
                    let mut v: Vec<Vec<u8>> = ch.iter().map(cases::jbytes).collect();
                    v.sort();
                    *ch = v.iter().map(|b| rec::bytes(b)).collect();
                }
            };
            for line in reader.lines() {
                let line = line.unwrap();
                let Some(rest) = line.strip_prefix("<<\"REPLAY\", ") else { continue };
                let Some(lit) = rest.strip_suffix(">>") else { continue };
                let inner: String = serde_json::from_str(lit).unwrap_or_else(|e| {
                    eprintln!("harness: bad REPLAY literal: {e}");
                    std::process::exit(2)
                });
                let item: J = serde_json::from_str(&inner).unwrap();
                let x = cases::jbytes(&item["x"]);
                *current.lock().unwrap() = inner.clone();
                for (si, st) in starts.iter().enumerate() {
                    let mut alts = item["exp"][si].as_array().cloned().unwrap_or_default();
                    if alts.is_empty() {
                        skipped += 1;
                        continue;
                    }
                    for a in alts.iter_mut() {
                        if a["v"] == "acc" {
                            norm(&mut a["node"]);
                            if a["com"] == true {
                                a["hdr"] = J::Null;
                            }
                            else {
                                norm(&mut a["hdr"]);
                            }
                            a["suffix"] = json!(true);
                        }
                        else if a["v"] == "empty" {
                            a["suffix"] = json!(true);
                        }
                    }
                    let obs = dut::parse_obs(root, st, &x);
                    progress.fetch_add(1, Ordering::Relaxed);
                    total += 1;
                    if obs["v"] == "acc" {
                        nontrivial += 1;
                    }
                    if alts.iter().any(|a| cases::matches(a, &obs)) {
                        ok += 1;
                    }
                    else {
                        nfail += 1;
                        if fails.len() < max_fail {
                            fails.push(json!({"case": {"kind": "parse", "iface": iface, "in": item["x"],
                                "start": st.iter().map(|m| rec::bytes(m.as_bytes())).collect::<Vec<_>>(), "exp": alts}, "obs": obs}));
                        }
                    }
                }
            }
            let rep = json!({"total": total, "ok": ok, "fail": nfail, "nontrivial": nontrivial, "skipped": skipped, "fails": fails});
            std::fs::write(&args[3], serde_json::to_string(&rep).unwrap()).unwrap();
        }
        "exec" => {
            let mut out = BufWriter::new(std::fs::File::create(&args[3]).unwrap());
            for line in reader.lines() {
                let line = line.unwrap();
                if line.trim().is_empty() {
                    continue;
                }
                let mut c: J = match serde_json::from_str(&line) {
                    Ok(c) => c,
                    Err(e) => {
                        eprintln!("harness: bad case line: {e}");
                        std::process::exit(2)
                    }
                };
                *current.lock().unwrap() = line.clone();
                let obs = cases::execute(&mut duts, &c);
                progress.fetch_add(1, Ordering::Relaxed);
                c["obs"] = obs;
                serde_json::to_writer(&mut out, &c).unwrap();
                out.write_all(b"\n").unwrap();
            }
            out.flush().unwrap();
        }
        _ => {
            eprintln!("harness: unknown mode {mode}");
            std::process::exit(2);
        }
    }
}
