//! conf — conformance harness binding the TLA+ specification to microscpi's real code.
//!
//!   conf replay <cases.ndjson> <report.json>     spec -> code: execute, match against `exp`
//!   conf exec   <cases.ndjson> <trace.ndjson>    code -> spec: execute, write observations
//!   conf parsex <raw TLC lines> <report.json> <iface> <starts>
//!
//! Exit status: 0 done (verdicts are in the report), 2 harness/tool error, 3 watchdog
//! (the code under test did not return: the report names the case).

// A host-side defmt logger that drops everything: needed to link with the library's `defmt` feature enabled.
#[cfg(feature = "defmtlog")]
mod defmtlog {
    #[defmt::global_logger]
    struct Logger;
    unsafe impl defmt::Logger for Logger {
        fn acquire() {}
        unsafe fn flush() {}
        unsafe fn release() {}
        unsafe fn write(_bytes: &[u8]) {}
    }
    defmt::timestamp!("{=u32}", 0);
}

mod app;
mod cases;
pub mod dut;
mod errlist;
#[allow(clippy::all)]
mod gen;
pub mod rec;

#[global_allocator]
static GLOBAL: rec::Counting = rec::Counting;

fn main() {
    app::main_impl()
}
