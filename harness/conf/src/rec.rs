//! Recording doubles: thread-local event log, counting allocator, handlers' helpers,
//! the recording error queue, the writers and the scripted transport.
//!
//! Nothing in here judges an execution. Everything observable at the public surface of
//! microscpi is written down as events; the TLA+ specification (through TLC) or the
//! generic comparator in `cases.rs` decides.

use core::future::Future;
use core::pin::Pin;
use core::task::{Context, Poll};
use std::alloc::{GlobalAlloc, Layout, System};
use std::cell::{Cell, RefCell};

use microscpi::{Error, ErrorQueue, StaticErrorQueue};
use serde_json::{json, Value as J};

// ---------------------------------------------------------------------------------
// allocation counter (C13): counts only while library code runs
// ---------------------------------------------------------------------------------
pub struct Counting;

thread_local! {
    static COUNT_ON: Cell<bool> = const { Cell::new(false) };
    static ALLOCS: Cell<u64> = const { Cell::new(0) };
    static LOG: RefCell<Vec<J>> = const { RefCell::new(Vec::new()) };
    static POLLS: Cell<u64> = const { Cell::new(0) };
}

unsafe impl GlobalAlloc for Counting {
    unsafe fn alloc(&self, l: Layout) -> *mut u8 {
        let _ = COUNT_ON.try_with(|c| {
            if c.get() {
                let _ = ALLOCS.try_with(|a| a.set(a.get() + 1));
            }
        });
        System.alloc(l)
    }
    unsafe fn dealloc(&self, p: *mut u8, l: Layout) {
        System.dealloc(p, l)
    }
    unsafe fn realloc(&self, p: *mut u8, l: Layout, n: usize) -> *mut u8 {
        let _ = COUNT_ON.try_with(|c| {
            if c.get() {
                let _ = ALLOCS.try_with(|a| a.set(a.get() + 1));
            }
        });
        System.realloc(p, l, n)
    }
}

/// RAII: harness code is running (do not count allocations).
pub struct Pause(bool);
impl Pause {
    pub fn new() -> Pause {
        Pause(COUNT_ON.with(|c| c.replace(false)))
    }
}
impl Drop for Pause {
    fn drop(&mut self) {
        COUNT_ON.with(|c| c.set(self.0));
    }
}
/// RAII: library code is running (count allocations).
pub struct Counted(bool);
impl Counted {
    pub fn new() -> Counted {
        Counted(COUNT_ON.with(|c| c.replace(true)))
    }
}
impl Drop for Counted {
    fn drop(&mut self) {
        COUNT_ON.with(|c| c.set(self.0));
    }
}
pub fn allocs_reset() {
    ALLOCS.with(|a| a.set(0));
}
pub fn allocs() -> u64 {
    ALLOCS.with(|a| a.get())
}

// ---------------------------------------------------------------------------------
// event log
// ---------------------------------------------------------------------------------
pub fn log(ev: J) {
    let _p = Pause::new();
    LOG.with(|l| l.borrow_mut().push(ev));
}
pub fn take_log() -> Vec<J> {
    let _p = Pause::new();
    LOG.with(|l| std::mem::take(&mut *l.borrow_mut()))
}
pub fn log_len() -> usize {
    LOG.with(|l| l.borrow().len())
}

pub fn bytes(b: &[u8]) -> J {
    J::Array(b.iter().map(|x| json!(*x)).collect())
}

/// Append output bytes, merging with a directly preceding `out` event.
pub fn log_out(b: &[u8]) {
    let _p = Pause::new();
    if b.is_empty() {
        return;
    }
    LOG.with(|l| {
        let mut l = l.borrow_mut();
        if let Some(last) = l.last_mut() {
            if last["e"] == "out" {
                let arr = last["b"].as_array_mut().unwrap();
                arr.extend(b.iter().map(|x| json!(*x)));
                return;
            }
        }
        l.push(json!({"e": "out", "b": bytes(b)}));
    });
}

pub fn err_json(e: Error) -> J {
    let n = e.number();
    let txt: &str = e.into();
    json!({"e": "err", "n": n, "txt": bytes(txt.as_bytes())})
}

pub fn log_err(e: Error) {
    let _p = Pause::new();
    log(err_json(e));
}

// ---------------------------------------------------------------------------------
// typed argument values as seen by handlers
// ---------------------------------------------------------------------------------
pub trait ArgJ {
    fn j(&self) -> J;
}
macro_rules! int_arg {
    ($($t:ty),*) => {$(
        impl ArgJ for $t {
            fn j(&self) -> J {
                json!({"t": "int", "ty": stringify!($t), "d": bytes(format!("{}", self).as_bytes())})
            }
        }
    )*};
}
int_arg!(u8, i8, u16, i16, u32, i32, u64, i64, usize, isize);
impl ArgJ for bool {
    fn j(&self) -> J {
        json!({"t": "bool", "v": *self})
    }
}
impl ArgJ for &str {
    fn j(&self) -> J {
        json!({"t": "str", "b": bytes(self.as_bytes())})
    }
}
impl ArgJ for &[u8] {
    fn j(&self) -> J {
        json!({"t": "blk", "b": bytes(self)})
    }
}
impl ArgJ for f32 {
    fn j(&self) -> J {
        json!({"t": "f32", "bits": format!("{:08x}", self.to_bits())})
    }
}
impl ArgJ for f64 {
    fn j(&self) -> J {
        json!({"t": "f64", "bits": format!("{:016x}", self.to_bits())})
    }
}

pub fn call(id: usize, args: Vec<J>) {
    let _p = Pause::new();
    log(json!({"e": "call", "id": id, "args": args}));
}
/// arguments are built while paused
pub fn args_of(f: impl FnOnce() -> Vec<J>) -> Vec<J> {
    let _p = Pause::new();
    f()
}

// ---------------------------------------------------------------------------------
// suspension points
// ---------------------------------------------------------------------------------
pub struct Pend(pub u32);
impl Future for Pend {
    type Output = ();
    fn poll(mut self: Pin<&mut Self>, cx: &mut Context<'_>) -> Poll<()> {
        if self.0 == 0 {
            Poll::Ready(())
        }
        else {
            self.0 -= 1;
            cx.waker().wake_by_ref();
            Poll::Pending
        }
    }
}

thread_local! {
    /// pattern of suspension counts handed out to every suspension point in turn
    static SUSP: RefCell<(Vec<u32>, usize)> = const { RefCell::new((Vec::new(), 0)) };
}
pub fn set_susp(pattern: Vec<u32>) {
    let _p = Pause::new();
    SUSP.with(|s| *s.borrow_mut() = (pattern, 0));
}
pub fn next_susp() -> u32 {
    SUSP.with(|s| {
        let mut s = s.borrow_mut();
        if s.0.is_empty() {
            0
        }
        else {
            let i = s.1 % s.0.len();
            s.1 += 1;
            s.0[i]
        }
    })
}
/// suspension point used by generated async handlers
pub fn susp() -> Pend {
    Pend(next_susp())
}

// ---------------------------------------------------------------------------------
// executor
// ---------------------------------------------------------------------------------
pub fn polls() -> u64 {
    POLLS.with(|p| p.get())
}
pub fn block_on<F: Future>(f: F) -> F::Output {
    use std::task::{RawWaker, RawWakerVTable, Waker};
    fn noop(_: *const ()) {}
    fn clone(_: *const ()) -> RawWaker {
        RawWaker::new(core::ptr::null(), &VT)
    }
    static VT: RawWakerVTable = RawWakerVTable::new(clone, noop, noop, noop);
    let waker = unsafe { Waker::from_raw(RawWaker::new(core::ptr::null(), &VT)) };
    let mut cx = Context::from_waker(&waker);
    let mut f = std::pin::pin!(f);
    POLLS.with(|p| p.set(0));
    loop {
        POLLS.with(|p| p.set(p.get() + 1));
        if let Poll::Ready(v) = f.as_mut().poll(&mut cx) {
            return v;
        }
    }
}

// ---------------------------------------------------------------------------------
// recording error queue: logs every push, delegates to the real StaticErrorQueue
// ---------------------------------------------------------------------------------
#[derive(Default)]
pub struct RecQueue<const K: usize>(pub StaticErrorQueue<K>);
impl<const K: usize> ErrorQueue for RecQueue<K> {
    fn error_count(&self) -> usize {
        self.0.error_count()
    }
    fn push_error(&mut self, error: Error) {
        log_err(error);
        self.0.push_error(error)
    }
    fn pop_error(&mut self) -> Option<Error> {
        self.0.pop_error()
    }
}

// ---------------------------------------------------------------------------------
// writers
// ---------------------------------------------------------------------------------
/// Pass-through writer: every byte goes to the event log in order with handler calls.
/// `cap`: optional capacity, behaves like the heapless writer when exceeded.
pub struct RecWriter {
    pub cap: Option<usize>,
    pub len: usize,
}
impl RecWriter {
    pub fn new(cap: Option<usize>) -> RecWriter {
        RecWriter { cap, len: 0 }
    }
    fn put(&mut self, b: &[u8]) -> Result<(), Error> {
        if let Some(c) = self.cap {
            if self.len + b.len() > c {
                return Err(Error::TooMuchData);
            }
        }
        self.len += b.len();
        log_out(b);
        Ok(())
    }
}
impl microscpi::Write for RecWriter {
    // every method first passes a suspension point (0 suspensions unless a case sets a pattern)
    async fn write_bytes(&mut self, bytes: &[u8]) -> Result<(), Error> {
        susp().await;
        self.put(bytes)
    }
    async fn write_char(&mut self, c: char) -> Result<(), Error> {
        susp().await;
        let _p = Pause::new();
        let mut b = [0u8; 4];
        self.put(c.encode_utf8(&mut b).as_bytes())
    }
    async fn write_str(&mut self, s: &str) -> Result<(), Error> {
        susp().await;
        self.put(s.as_bytes())
    }
    async fn write_fmt(&mut self, fmt: core::fmt::Arguments<'_>) -> Result<(), Error> {
        struct W<'a>(&'a mut RecWriter, Option<Error>);
        impl core::fmt::Write for W<'_> {
            fn write_str(&mut self, s: &str) -> core::fmt::Result {
                self.0.put(s.as_bytes()).map_err(|e| {
                    self.1 = Some(e);
                    core::fmt::Error
                })
            }
        }
        let mut w = W(self, None);
        match core::fmt::write(&mut w, fmt) {
            Ok(()) => Ok(()),
            Err(_) => Err(w.1.unwrap_or(Error::SystemError)),
        }
    }
    async fn flush(&mut self) -> Result<(), Error> {
        susp().await;
        let _p = Pause::new();
        log(json!({"e": "flush"}));
        Ok(())
    }
}

// ---------------------------------------------------------------------------------
// scripted transport
// ---------------------------------------------------------------------------------
#[derive(Clone, Debug, Default)]
pub struct Script {
    /// the byte stream
    pub stream: Vec<u8>,
    /// requested chunk sizes, used in turn (a size is clipped to the space offered and
    /// to what is left of the stream); when exhausted the rest is delivered as offered.
    pub chunks: Vec<usize>,
    /// fail the adapter call with this index (0-based over read/write/flush calls)
    pub fail_at: Option<usize>,
    /// suspensions before each adapter call completes (cyclic)
    pub pend: Vec<u32>,
}

pub struct ScriptAdapter {
    s: Script,
    pos: usize,
    chunk_i: usize,
    calls: usize,
    pend_i: usize,
    empty_dst: u32,
    pub dead: bool,
}

#[derive(Debug, PartialEq, Clone, Copy)]
pub enum TErr {
    /// the script's stream is exhausted (normal end of a case)
    Eof,
    /// injected fault with its unique token
    Injected(usize),
}

impl ScriptAdapter {
    pub fn new(s: Script) -> Self {
        ScriptAdapter { s, pos: 0, chunk_i: 0, calls: 0, pend_i: 0, empty_dst: 0, dead: false }
    }
    fn pend(&mut self) -> Pend {
        if self.s.pend.is_empty() {
            Pend(0)
        }
        else {
            let k = self.s.pend[self.pend_i % self.s.pend.len()];
            self.pend_i += 1;
            Pend(k)
        }
    }
    fn enter(&mut self, op: &str) -> Result<(), TErr> {
        let _p = Pause::new();
        if self.dead {
            log(json!({"e": "after_end", "op": op}));
        }
        let idx = self.calls;
        self.calls += 1;
        if self.s.fail_at == Some(idx) {
            self.dead = true;
            log(json!({"e": "fail", "op": op, "tok": idx}));
            return Err(TErr::Injected(idx));
        }
        Ok(())
    }
}

impl microscpi::Adapter for ScriptAdapter {
    type Error = TErr;

    async fn read(&mut self, dst: &mut [u8]) -> Result<usize, TErr> {
        self.pend().await;
        self.enter("read")?;
        let _p = Pause::new();
        if dst.is_empty() {
            self.empty_dst += 1;
            if self.empty_dst >= 4 {
                self.dead = true;
                log(json!({"e": "stuck", "cap": 0}));
                return Err(TErr::Eof);
            }
        }
        else {
            self.empty_dst = 0;
        }
        if self.pos >= self.s.stream.len() {
            self.dead = true;
            log(json!({"e": "eof", "cap": dst.len()}));
            return Err(TErr::Eof);
        }
        let left = self.s.stream.len() - self.pos;
        let want = if self.chunk_i < self.s.chunks.len() {
            let w = self.s.chunks[self.chunk_i];
            self.chunk_i += 1;
            w
        }
        else {
            usize::MAX
        };
        let n = want.min(left).min(dst.len());
        dst[..n].copy_from_slice(&self.s.stream[self.pos..self.pos + n]);
        log(json!({"e": "read", "cap": dst.len(), "b": bytes(&dst[..n])}));
        self.pos += n;
        Ok(n)
    }

    async fn write(&mut self, src: &[u8]) -> Result<(), TErr> {
        self.pend().await;
        self.enter("write")?;
        let _p = Pause::new();
        log(json!({"e": "write", "b": bytes(src)}));
        Ok(())
    }

    async fn flush(&mut self) -> Result<(), TErr> {
        self.pend().await;
        self.enter("aflush")?;
        let _p = Pause::new();
        log(json!({"e": "aflush"}));
        Ok(())
    }
}
