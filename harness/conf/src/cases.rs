//! Replay of specification-generated cases (TLC -> code direction) and the generic,
//! deliberately dumb comparator: the expected outcomes are computed by the TLA+
//! specification; this file only executes and matches.

use std::collections::HashMap;

use serde_json::{json, Value as J};

use crate::dut::{parse_obs, Dut, WriterSpec};
use crate::rec::{self, Script};

pub fn jbytes(v: &J) -> Vec<u8> {
    v.as_array().map(|a| a.iter().map(|x| x.as_u64().unwrap_or(0) as u8).collect()).unwrap_or_default()
}
pub fn jusizes(v: &J) -> Vec<usize> {
    v.as_array().map(|a| a.iter().map(|x| x.as_u64().unwrap_or(0) as usize).collect()).unwrap_or_default()
}

/// pattern match: every key of `pat` must be present in `obs` with a matching value.
/// "*" matches anything. Arrays must have equal length (element-wise match).
pub fn matches(pat: &J, obs: &J) -> bool {
    match (pat, obs) {
        (J::String(s), _) if s == "*" => true,
        (J::Object(p), J::Object(o)) => p.iter().all(|(k, v)| match o.get(k) {
            Some(ov) => matches(v, ov),
            None => false,
        }),
        (J::Array(p), J::Array(o)) => p.len() == o.len() && p.iter().zip(o.iter()).all(|(a, b)| matches(a, b)),
        (a, b) => a == b,
    }
}

pub fn writer_spec(w: &J) -> WriterSpec {
    match w["k"].as_str().unwrap_or("rec") {
        "std" => WriterSpec::Std,
        "heapless" => WriterSpec::Heapless(w["cap"].as_u64().unwrap_or(64) as usize),
        _ => WriterSpec::Rec(w.get("cap").and_then(|c| c.as_u64()).map(|c| c as usize)),
    }
}

pub fn script_of(c: &J) -> Script {
    Script {
        stream: jbytes(&c["stream"]),
        chunks: jusizes(&c["chunks"]),
        fail_at: c.get("fail_at").and_then(|x| x.as_u64()).map(|x| x as usize),
        pend: c.get("pend").map(|p| jusizes(p).into_iter().map(|x| x as u32).collect()).unwrap_or_default(),
    }
}

pub struct Duts {
    map: HashMap<String, Box<dyn Dut>>,
}
impl Duts {
    pub fn new() -> Duts {
        Duts { map: HashMap::new() }
    }
    pub fn get(&mut self, name: &str) -> &mut Box<dyn Dut> {
        if !self.map.contains_key(name) {
            let d = crate::gen::make(name).unwrap_or_else(|| {
                eprintln!("harness: unknown interface {name}");
                std::process::exit(2)
            });
            self.map.insert(name.to_string(), d);
        }
        self.map.get_mut(name).unwrap()
    }
}

/// Execute one case description, return the observation (without judging).
pub fn execute(duts: &mut Duts, c: &J) -> J {
    let iface = c["iface"].as_str().unwrap_or("main");
    if let Some(p) = c.get("susp") {
        rec::set_susp(jusizes(p).into_iter().map(|x| x as u32).collect());
    }
    else {
        rec::set_susp(vec![]);
    }
    let d = duts.get(if c["kind"] == "queue" || c["kind"] == "errtable" || c["kind"] == "conv" { "main" } else { iface });
    match c["kind"].as_str().unwrap_or("") {
        "run" => {
            if !c.get("keep").and_then(|k| k.as_bool()).unwrap_or(false) {
                d.fresh();
            }
            let input = jbytes(&c["in"]);
            let w = writer_spec(&c["w"]);
            J::Array(d.run(&input, &w))
        }
        "runs" => {
            // several run calls on one instance, one per message
            d.fresh();
            let w = writer_spec(&c["w"]);
            let mut all = Vec::new();
            for m in c["msgs"].as_array().unwrap() {
                all.extend(d.run(&jbytes(m), &w));
            }
            J::Array(all)
        }
        "process" => {
            d.fresh();
            let n = c["N"].as_u64().unwrap() as usize;
            J::Array(d.process(n, script_of(c)))
        }
        "procset" | "procdiff" => {
            // one stream, several delivery schedules (C07); optionally also message by message
            let n = c["N"].as_u64().unwrap() as usize;
            let mut vs = Vec::new();
            for v in c["variants"].as_array().unwrap() {
                if let Some(p) = v.get("susp") {
                    rec::set_susp(jusizes(p).into_iter().map(|x| x as u32).collect());
                }
                else {
                    rec::set_susp(vec![]);
                }
                d.fresh();
                let script = Script {
                    stream: jbytes(&c["stream"]),
                    chunks: jusizes(&v["chunks"]),
                    fail_at: None,
                    pend: v.get("pend").map(|p| jusizes(p).into_iter().map(|x| x as u32).collect()).unwrap_or_default(),
                };
                vs.push(J::Array(d.process(n, script)));
            }
            let mut o = json!({"v": vs});
            if let Some(msgs) = c.get("msgs").and_then(|m| m.as_array()) {
                rec::set_susp(vec![]);
                d.fresh();
                let w = WriterSpec::Rec(None);
                let mut all = Vec::new();
                for m in msgs {
                    all.extend(d.run(&jbytes(m), &w));
                }
                o["runs"] = J::Array(all);
            }
            o
        }
        "runset" => {
            // several inputs that must mean the same (C11): one fresh instance each
            let w = writer_spec(&c["w"]);
            let mut all = Vec::new();
            for i in c["ins"].as_array().unwrap() {
                d.fresh();
                all.push(J::Array(d.run(&jbytes(i), &w)));
            }
            J::Array(all)
        }
        "multi" => {
            // one input through run with several writers and through process with several
            // buffer sizes / schedules (C05, C04, C13)
            let input = jbytes(&c["in"]);
            let mut runs = Vec::new();
            for w in c["writers"].as_array().unwrap() {
                d.fresh();
                runs.push(J::Array(d.run(&input, &writer_spec(w))));
            }
            let mut procs = Vec::new();
            for p in c["procs"].as_array().unwrap() {
                d.fresh();
                let script = Script { stream: input.clone(), chunks: jusizes(&p["chunks"]), fail_at: None, pend: vec![] };
                procs.push(J::Array(d.process(p["N"].as_u64().unwrap() as usize, script)));
            }
            json!({"runs": runs, "procs": procs})
        }
        "failset" => {
            // one session, then the same session with a transport error injected at every
            // position of the adapter call sequence (C10)
            let n = c["N"].as_u64().unwrap() as usize;
            let mk = |fail_at: Option<usize>| Script {
                stream: jbytes(&c["stream"]),
                chunks: jusizes(&c["chunks"]),
                fail_at,
                pend: vec![],
            };
            d.fresh();
            let reference = d.process(n, mk(None));
            let ncalls = reference
                .iter()
                .filter(|e| matches!(e["e"].as_str(), Some("read" | "write" | "aflush" | "eof")))
                .count();
            let mut fs = Vec::new();
            for i in 0..ncalls {
                d.fresh();
                fs.push(J::Array(d.process(n, mk(Some(i)))));
            }
            json!({"ref": reference, "f": fs})
        }
        "queue" => {
            // the ErrorQueue trait methods called directly on StaticErrorQueue<K> (C09)
            use microscpi::{Error, ErrorQueue, StaticErrorQueue};
            fn error_of(n: i64, custom: bool) -> Error {
                if custom {
                    return Error::Custom(n as i16, "custom");
                }
                match n {
                    -113 => Error::UndefinedHeader,
                    -104 => Error::DataTypeError,
                    -120 => Error::NumericDataError,
                    -224 => Error::IllegalParameterValue,
                    -350 => Error::QueueOverflow,
                    -101 => Error::InvalidCharacter,
                    -115 => Error::UnexpectedNumberOfParameters,
                    _ => Error::Custom(n as i16, "custom"),
                }
            }
            fn drive<Q: ErrorQueue>(mut q: Q, ops: &[J]) -> J {
                let mut out = Vec::new();
                for o in ops {
                    match o["op"].as_str().unwrap_or("") {
                        "push" => {
                            q.push_error(error_of(o["n"].as_i64().unwrap(), o["custom"].as_bool().unwrap_or(false)));
                            out.push(json!({"r": "pushed"}));
                        }
                        "pop" => match q.pop_error() {
                            Some(e) => {
                                let n = e.number();
                                let t: &str = e.into();
                                out.push(json!({"r": "pop", "n": n, "txt": rec::bytes(t.as_bytes())}));
                            }
                            None => out.push(json!({"r": "none"})),
                        },
                        _ => out.push(json!({"r": "count", "c": q.error_count()})),
                    }
                }
                J::Array(out)
            }
            let ops = c["ops"].as_array().cloned().unwrap_or_default();
            let r = std::panic::catch_unwind(std::panic::AssertUnwindSafe(|| match c["K"].as_u64().unwrap_or(0) {
                1 => drive(StaticErrorQueue::<1>::new(), &ops),
                2 => drive(StaticErrorQueue::<2>::new(), &ops),
                3 => drive(StaticErrorQueue::<3>::new(), &ops),
                4 => drive(StaticErrorQueue::<4>::new(), &ops),
                10 => drive(StaticErrorQueue::<10>::new(), &ops),
                k => {
                    eprintln!("harness: queue capacity {k} not instantiated");
                    std::process::exit(2)
                }
            }));
            return r.unwrap_or_else(|_| json!([{"r": "panic"}]));
        }
        "conv" => {
            // Value -> T through TryInto called directly, by value and by reference (C03)
            use microscpi::{Error, Value};
            let t = jbytes(&c["tok"]["t"]);
            let text = match std::str::from_utf8(&t) {
                Ok(s) => s,
                Err(_) => return json!({"r": "skip"}),
            };
            let v = match c["tok"]["k"].as_str().unwrap_or("") {
                "chr" => Value::Characters(text),
                "dec" => Value::Decimal(text),
                "hex" => Value::Hexadecimal(text),
                "bin" => Value::Binary(text),
                "oct" => Value::Octal(text),
                "str" => Value::String(text),
                _ => Value::Arbitrary(&t),
            };
            fn out<T: crate::rec::ArgJ>(a: Result<T, Error>, b: Result<T, Error>) -> J {
                let f = |r: Result<T, Error>| match r {
                    Ok(x) => json!({"ok": true, "v": x.j()}),
                    Err(e) => json!({"ok": false, "n": e.number()}),
                };
                json!({"r": "conv", "byval": f(a), "byref": f(b)})
            }
            macro_rules! go {
                ($t:ty) => {{
                    let a: Result<$t, Error> = v.try_into();
                    let b: Result<$t, Error> = (&v).try_into();
                    out(a, b)
                }};
            }
            let r = std::panic::catch_unwind(std::panic::AssertUnwindSafe(|| match c["ty"].as_str().unwrap_or("") {
                "u8" => go!(u8), "i8" => go!(i8), "u16" => go!(u16), "i16" => go!(i16), "u32" => go!(u32), "i32" => go!(i32),
                "u64" => go!(u64), "i64" => go!(i64), "usize" => go!(usize), "isize" => go!(isize),
                "f32" => go!(f32), "f64" => go!(f64), "bool" => go!(bool),
                "str" => go!(&str),
                _ => {
                    let b: Result<&[u8], Error> = (&v).try_into();
                    let f = |r: Result<&[u8], Error>| match r {
                        Ok(x) => json!({"ok": true, "v": crate::rec::ArgJ::j(&x)}),
                        Err(e) => json!({"ok": false, "n": e.number()}),
                    };
                    let one = f(b);
                    json!({"r": "conv", "byval": one.clone(), "byref": one})
                }
            }));
            return r.unwrap_or_else(|_| json!({"r": "panic"}));
        }
        "errtable" => {
            // number(), Into<&str>, Display and the Response impl of every standard error
            let mut rows = Vec::new();
            for (name, e) in crate::errlist::all_errors() {
                let n = e.number();
                let t: &str = e.into();
                let disp = format!("{}", e);
                let mut w: Vec<u8> = Vec::new();
                let _ = rec::block_on(microscpi::Response::write_response(&e, &mut w));
                rows.push(json!({"name": name, "n": n, "txt": rec::bytes(t.as_bytes()),
                                 "disp": rec::bytes(disp.as_bytes()), "resp": rec::bytes(&w)}));
            }
            return J::Array(rows);
        }
        "parse" => {
            let start: Vec<String> = c["start"]
                .as_array()
                .map(|a| a.iter().map(|s| String::from_utf8(jbytes(s)).unwrap()).collect())
                .unwrap_or_default();
            let input = jbytes(&c["in"]);
            parse_obs(d.root(), &start, &input)
        }
        k => {
            eprintln!("harness: unknown case kind {k}");
            std::process::exit(2)
        }
    }
}

/// Replay: the case carries `exp`, a list of allowed observation patterns.
/// Returns (ok, index of the matching alternative, observation).
pub fn judge(c: &J, obs: &J) -> (bool, usize) {
    let alts = c["exp"].as_array().cloned().unwrap_or_default();
    for (i, a) in alts.iter().enumerate() {
        if matches(a, obs) {
            return (true, i);
        }
    }
    (false, 0)
}

/// Projection of an event list on what the properties pin (drops `ret` statistics etc.)
pub fn project(evs: &J) -> J {
    if !evs.is_array() {
        return evs.clone();
    }
    let mut out = Vec::new();
    for e in evs.as_array().cloned().unwrap_or_default() {
        match e["e"].as_str().unwrap_or("") {
            "ret" => out.push(json!({"e": "ret", "rem": e["rem"], "suffix": e["suffix"]})),
            _ => out.push(e),
        }
    }
    J::Array(out)
}
