//! C13, build half: microscpi with DEFAULT features, used through the attribute macro from a
//! crate that has neither the standard library nor an allocator.  If the library (or the code
//! the macro generates) needed `std` or `alloc`, this crate would not build.
#![no_std]

use core::future::Future;
use core::pin::pin;
use core::task::{Context, Poll, RawWaker, RawWakerVTable, Waker};

use microscpi::{self as scpi, Error, ErrorCommands, ErrorQueue, Interface, StandardCommands, StaticErrorQueue};

#[panic_handler]
fn panic(_: &core::panic::PanicInfo) -> ! {
    loop {}
}

pub struct Dev {
    errors: StaticErrorQueue<4>,
    level: u16,
}

impl ErrorCommands for Dev {
    fn error_queue(&mut self) -> &mut impl ErrorQueue {
        &mut self.errors
    }
}
impl StandardCommands for Dev {}

#[scpi::interface(StandardCommands, ErrorCommands)]
impl Dev {
    #[scpi(cmd = "*IDN?")]
    pub async fn idn(&mut self) -> Result<&str, Error> {
        Ok("VERIF,NOSTD,0,0")
    }
    #[scpi(cmd = "SOURce:LEVel")]
    pub async fn set_level(&mut self, v: u16) -> Result<(), Error> {
        self.level = v;
        Ok(())
    }
    #[scpi(cmd = "SOURce:LEVel?")]
    pub fn level(&mut self) -> Result<u16, Error> {
        Ok(self.level)
    }
    #[scpi(cmd = "[SYSTem]:DATA?")]
    pub async fn data<'a>(&mut self, s: &'a str, b: &'a [u8], f: f64) -> Result<(f64, scpi::Arbitrary<'a>, &'a str), Error> {
        Ok((f, scpi::Arbitrary(b), s))
    }
}

struct Loop;
impl scpi::Adapter for Loop {
    type Error = ();
    async fn read(&mut self, _dst: &mut [u8]) -> Result<usize, ()> {
        Err(())
    }
    async fn write(&mut self, _src: &[u8]) -> Result<(), ()> {
        Ok(())
    }
    async fn flush(&mut self) -> Result<(), ()> {
        Ok(())
    }
}

fn block_on<F: Future>(f: F) -> F::Output {
    fn noop(_: *const ()) {}
    fn clone(_: *const ()) -> RawWaker {
        RawWaker::new(core::ptr::null(), &VT)
    }
    static VT: RawWakerVTable = RawWakerVTable::new(clone, noop, noop, noop);
    let waker = unsafe { Waker::from_raw(RawWaker::new(core::ptr::null(), &VT)) };
    let mut cx = Context::from_waker(&waker);
    let mut f = pin!(f);
    loop {
        if let Poll::Ready(v) = f.as_mut().poll(&mut cx) {
            return v;
        }
    }
}

/// Entry point so that everything above is instantiated and code-generated.
#[no_mangle]
pub extern "C" fn verif_nostd_entry(input: *const u8, len: usize, out: *mut u8, cap: usize) -> usize {
    let input = unsafe { core::slice::from_raw_parts(input, len) };
    let mut dev = Dev { errors: StaticErrorQueue::new(), level: 0 };
    let mut resp: heapless::Vec<u8, 64> = heapless::Vec::new();
    let rem = block_on(dev.run(input, &mut resp));
    let _ = block_on(dev.process::<32, _>(&mut Loop));
    let n = resp.len().min(cap);
    unsafe { core::ptr::copy_nonoverlapping(resp.as_ptr(), out, n) };
    n + rem.len()
}
