//! treeconf — the conformance harness linked against interfaces generated from
//! TLC-enumerated declaration sets (C01, C14).  Same application as `conf`.

#[path = "../../conf/src/app.rs"]
mod app;
#[path = "../../conf/src/cases.rs"]
mod cases;
#[path = "../../conf/src/dut.rs"]
pub mod dut;
#[path = "../../conf/src/errlist.rs"]
mod errlist;
#[allow(clippy::all)]
mod gen;
#[path = "../../conf/src/rec.rs"]
pub mod rec;

#[global_allocator]
static GLOBAL: rec::Counting = rec::Counting;

fn main() {
    app::main_impl()
}
