#!/usr/bin/env python3
"""Writes the static interface descriptions spec/ifaces/vals.json and resp.json (C03, C04).
Deterministic; the files are committed, this script documents how they were made."""
import json
import os

VERIF = os.path.dirname(os.path.dirname(os.path.abspath(__file__)))
INTS = ["u8", "i8", "u16", "i16", "u32", "i32", "u64", "i64", "usize", "isize"]
NAMES = {"u8": "U8", "i8": "I8", "u16": "U16", "i16": "I16", "u32": "U32", "i32": "I32", "u64": "U64", "i64": "I64",
         "usize": "US", "isize": "IS", "f32": "F32", "f64": "F64", "bool": "BOOL", "str": "STR", "blk": "BLK"}


def vals():
    cmds = []
    for ty, nm in NAMES.items():
        cmds.append({"cmd": "V:%s" % nm, "args": [ty], "beh": {"k": "ok"}, "async": len(cmds) % 2 == 0})
    for k in range(0, 11):
        cmds.append({"cmd": "AR:N%d" % k, "args": ["u8"] * k, "beh": {"k": "ok"}, "async": k % 2 == 0})
    cmds.append({"cmd": "MIX", "args": ["u8", "bool", "str", "blk", "i16"], "beh": {"k": "ok"}, "async": True})
    cmds.append({"cmd": "MIXQ?", "args": ["i8", "f64", "u64"], "beh": {"k": "echo", "i": 2}, "async": True})
    return {"name": "vals", "attrs": [], "caps": [64], "ns": [64], "cmds": cmds}


def iv(v):
    return {"t": "int", "v": str(v)}


def sv(s):
    return {"t": "str", "b": list(s.encode("utf8"))}


def resp():
    """query handlers for every response type.  Dynamic ones echo/convert their argument;
    table ones return TABLE[index]."""
    prelude = []
    cmds = []

    def table(cmd, rty, rust_items, rust_ty, body, vals_):
        name = "T_%d" % len(cmds)
        prelude.append("    static %s: [%s; %d] = [%s];" % (name, rust_ty, len(rust_items), ", ".join(rust_items)))
        cmds.append({"cmd": cmd, "args": ["usize"], "async": len(cmds) % 2 == 0,
                     "beh": {"k": "raw", "rty": rty, "body": body.replace("$T", name), "spec": {"k": "table", "vals": vals_}}})

    from vlib.geniface import rust_str, rust_bytes
    # integers: echo the argument (any value of the type can be asked for)
    for ty in INTS:
        cmds.append({"cmd": "R:%s?" % NAMES[ty], "args": [ty], "beh": {"k": "echo", "i": 0}, "async": len(cmds) % 2 == 0})
    # floats from their bit pattern
    cmds.append({"cmd": "R:F64?", "args": ["u64"], "async": True,
                 "beh": {"k": "raw", "rty": "f64", "body": "Ok(f64::from_bits(a0))", "spec": {"k": "float", "ty": "f64"}}})
    cmds.append({"cmd": "R:F32?", "args": ["u32"], "async": False,
                 "beh": {"k": "raw", "rty": "f32", "body": "Ok(f32::from_bits(a0))", "spec": {"k": "float", "ty": "f32"}}})
    cmds.append({"cmd": "R:BOOL?", "args": ["bool"], "beh": {"k": "echo", "i": 0}, "async": True})
    cmds.append({"cmd": "R:STR?", "args": ["str"], "beh": {"k": "echo", "i": 0}, "async": True})
    cmds.append({"cmd": "R:BLK?", "args": ["blk"], "beh": {"k": "echo", "i": 0}, "async": False})
    cmds.append({"cmd": "R:UNIT?", "args": [], "async": True, "beh": {"k": "raw", "rty": "()", "body": "Ok(())", "spec": {"k": "const", "v": {"t": "unit"}}}})
    strs = ["", "a", 'a"b', '""', '"', "é", "a,b", "x;y", "line\nbreak", "'", "tab\there", "€uro \U0001F600", "q" * 100, 'say "hi", ok']
    table("R:SSTR?", "&'static str", [rust_str(x) for x in strs], "&str", "Ok($T[a0])", [sv(x) for x in strs])
    table("R:HSTR?", "heapless::String<128>", [rust_str(x) for x in strs], "&str",
          "Ok(heapless::String::<128>::try_from($T[a0]).unwrap())", [sv(x) for x in strs])
    table("R:STRING?", "String", [rust_str(x) for x in strs], "&str", "Ok({ let _p = rec::Pause::new(); $T[a0].to_string() })", [sv(x) for x in strs])
    chrs = ["ON", "OFF", "MIN", "DEF_1", "A1"]
    table("R:CHR?", "scpi::Characters<'static>", [rust_str(x) for x in chrs], "&str", "Ok(scpi::Characters($T[a0]))",
          [{"t": "chr", "b": list(x.encode())} for x in chrs])
    blks = [bytes(), b"\x00", b"#15", bytes(range(9)), bytes(range(10)), bytes(range(11)), bytes(range(99)), bytes(range(100)),
            bytes(range(101)), bytes(k % 256 for k in range(999)), bytes(k % 256 for k in range(1000)), b'";,\n\xff']
    table("R:SBLK?", "scpi::Arbitrary<'static>", [rust_bytes(x) for x in blks], "&[u8]", "Ok(scpi::Arbitrary($T[a0]))",
          [{"t": "blk", "b": list(x)} for x in blks])
    t2 = [(-32768, 'a"b'), (0, ""), (32767, "x,y"), (-1, "é")]
    table("R:T2?", "(i16, &'static str)", ["(%d, %s)" % (a, rust_str(s)) for a, s in t2], "(i16, &str)", "Ok($T[a0])",
          [{"t": "tup", "items": [iv(a), sv(s)]} for a, s in t2])
    t3 = [(255, True, -9223372036854775808), (0, False, 9223372036854775807)]
    table("R:T3?", "(u8, bool, i64)", ["(%d, %s, %d)" % (a, str(c).lower(), d) for a, c, d in t3], "(u8, bool, i64)", "Ok($T[a0])",
          [{"t": "tup", "items": [iv(a), {"t": "bool", "v": c}, iv(d)]} for a, c, d in t3])
    t4 = [(-128, "q", True, "ON"), (127, ',"', False, "OFF")]
    table("R:T4?", "(i8, &'static str, bool, scpi::Characters<'static>)",
          ["(%d, %s, %s, %s)" % (a, rust_str(s), str(c).lower(), rust_str(k)) for a, s, c, k in t4], "(i8, &str, bool, &str)",
          "Ok(($T[a0].0, $T[a0].1, $T[a0].2, scpi::Characters($T[a0].3)))",
          [{"t": "tup", "items": [iv(a), sv(s), {"t": "bool", "v": c}, {"t": "chr", "b": list(k.encode())}]} for a, s, c, k in t4])
    sls = [[], [0], [65535, 0, 1], list(range(1, 13))]
    table("R:SL?", "&'static [u16]", ["&[%s]" % ", ".join(map(str, x)) for x in sls], "&[u16]", "Ok($T[a0])",
          [{"t": "tup", "items": [iv(v) for v in x]} for x in sls])
    table("R:HV?", "heapless::Vec<u16, 16>", ["&[%s]" % ", ".join(map(str, x)) for x in sls], "&[u16]",
          "Ok(heapless::Vec::<u16, 16>::from_slice($T[a0]).unwrap())", [{"t": "tup", "items": [iv(v) for v in x]} for x in sls])
    sstr = [["a", 'b"c'], [","], ["", ""]]
    table("R:SLS?", "&'static [&'static str]", ["&[%s]" % ", ".join(rust_str(v) for v in x) for x in sstr], "&[&str]", "Ok($T[a0])",
          [{"t": "tup", "items": [sv(v) for v in x]} for x in sstr])
    nest = [([1, 2], "x"), ([], 'q"')]
    table("R:NEST?", "(&'static [u8], &'static str)", ["(&[%s], %s)" % (", ".join(map(str, a)), rust_str(s)) for a, s in nest],
          "(&[u8], &str)", "Ok($T[a0])",
          [{"t": "tup", "items": ([{"t": "tup", "items": [iv(v) for v in a]}] if a else [{"t": "tup", "items": []}]) + [sv(s)]} for a, s in nest])
    # deeper nesting: tuple of tuples, slice of tuples, vector of strings, tuple holding a list in the middle
    tt = [((-128, 'a"b'), (True, 255)), ((127, ""), (False, 0))]
    table("R:TT?", "((i8, &'static str), (bool, u8))", ["((%d, %s), (%s, %d))" % (a, rust_str(b_), str(c).lower(), d) for (a, b_), (c, d) in tt],
          "((i8, &str), (bool, u8))", "Ok($T[a0])",
          [{"t": "tup", "items": [{"t": "tup", "items": [iv(a), sv(b_)]}, {"t": "tup", "items": [{"t": "bool", "v": c}, iv(d)]}]} for (a, b_), (c, d) in tt])
    st = [[(1, "x"), (2, 'y,"z"')], [(0, "")], []]
    table("R:SLT?", "&'static [(u8, &'static str)]", ["&[%s]" % ", ".join("(%d, %s)" % (a, rust_str(b_)) for a, b_ in x) for x in st], "&[(u8, &str)]", "Ok($T[a0])",
          [{"t": "tup", "items": [{"t": "tup", "items": [iv(a), sv(b_)]} for a, b_ in x]} for x in st])
    vs_ = [["ab", 'c"d'], ["", "e,f", "g"], []]
    table("R:HVS?", "heapless::Vec<heapless::String<8>, 4>", ["&[%s]" % ", ".join(rust_str(v) for v in x) for x in vs_], "&[&str]",
          "Ok($T[a0].iter().map(|s| heapless::String::<8>::try_from(*s).unwrap()).collect())",
          [{"t": "tup", "items": [sv(v) for v in x]} for x in vs_])
    mid = [(7, [1, 2, 3], "end"), (0, [], 'q"')]
    table("R:MID?", "(u8, &'static [i16], &'static str)", ["(%d, &[%s], %s)" % (a, ", ".join(map(str, l)), rust_str(t_)) for a, l, t_ in mid],
          "(u8, &[i16], &str)", "Ok($T[a0])",
          [{"t": "tup", "items": [iv(a), {"t": "tup", "items": [iv(v) for v in l]}, sv(t_)]} for a, l, t_ in mid])
    errs = [("UndefinedHeader", -113, "Undefined header"), ("QueueOverflow", -350, "Queue overflow"), ("DataTypeError", -104, "Data type error")]
    table("R:ERR?", "Error", ["Error::%s" % e for e, _, _ in errs], "Error", "Ok($T[a0])",
          [{"t": "tup", "items": [iv(n), sv(t)]} for _, n, t in errs])
    cmds.append({"cmd": "R:CUST?", "args": [], "async": True,
                 "beh": {"k": "raw", "rty": "Error", "body": 'Ok(Error::Custom(-999, "my \\"own\\" error"))',
                         "spec": {"k": "const", "v": {"t": "tup", "items": [iv(-999), sv('my "own" error')]}}}})
    cmds.append({"cmd": "R:FAIL?", "args": [], "beh": {"k": "fail", "n": -240, "text": "Hardware error"}, "async": True})
    cmds.append({"cmd": "R:CMD", "args": ["u8"], "beh": {"k": "ok"}, "async": True})
    return {"name": "resp", "attrs": [], "caps": [4, 16, 2048], "ns": [64, 1024], "prelude": "\n".join(prelude), "cmds": cmds}


if __name__ == "__main__":
    import sys
    sys.path.insert(0, os.path.join(VERIF, "bin"))
    for d in (vals(), resp()):
        with open(os.path.join(VERIF, "spec", "ifaces", d["name"] + ".json"), "w") as f:
            json.dump(d, f, indent=1)
