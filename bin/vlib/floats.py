"""Exact decimal <-> binary floating point, independent of any float library: the harness's
oracle for the float halves of C03/C04.  It evaluates, with unbounded rationals, the same
definition that spec/ScpiFloat.tla states (round to nearest, ties to even, overflow to
infinity, gradual underflow) and is replayed against TLC's table for miniature formats."""
from fractions import Fraction
import re

FMT = {"f32": (24, -126, 127, 8), "f64": (53, -1022, 1023, 11), }

_DEC = re.compile(rb"^([+-]?)(\d*)(?:\.(\d*))?(?:[eE]([+-]?\d+))?$")


def dec_to_fraction(text):
    """sign (0/1) and exact non-negative rational of a decimal literal (bytes)"""
    m = _DEC.match(text)
    if not m or (not m.group(2) and not m.group(3)):
        raise ValueError(text)
    sign = 1 if m.group(1) == b"-" else 0
    ip = m.group(2) or b"0"
    fp = m.group(3) or b""
    e = int(m.group(4) or 0)
    n = int(ip + fp)
    sc = e - len(fp)
    if n == 0:
        return sign, Fraction(0)
    if abs(sc) > 6000:          # far beyond any format: decide without building the number
        return sign, (Fraction(10) ** 6000 if sc > 0 else Fraction(1, 10 ** 6000))
    return sign, Fraction(n) * (Fraction(10) ** sc)


def round_binary(v, p, emin, emax):
    """v >= 0 exact.  Returns ('inf',) or (m, e) with value m * 2**e, m < 2**p, e >= emin-p+1,
    the nearest representable number, ties to even."""
    if v == 0:
        return (0, emin - p + 1)
    # find e such that 2**(p-1) <= v / 2**e < 2**p  (normal), clamp to the subnormal exponent
    e = v.numerator.bit_length() - v.denominator.bit_length() - p
    while v / (Fraction(2) ** e) >= 2 ** p:
        e += 1
    while v / (Fraction(2) ** e) < 2 ** (p - 1):
        e -= 1
    e = max(e, emin - p + 1)
    q = v / (Fraction(2) ** e)
    m = q.numerator // q.denominator
    r = q - m
    if r > Fraction(1, 2) or (r == Fraction(1, 2) and m % 2 == 1):
        m += 1
    if m == 2 ** p:
        m //= 2
        e += 1
    if e > emax - p + 1:
        return ("inf",)
    return (m, e)


def bits_of(sign, r, ty):
    p, emin, emax, ebits = FMT[ty]
    if r == ("inf",):
        return (sign << (p - 1 + ebits)) | (((1 << ebits) - 1) << (p - 1))
    m, e = r
    if m < 2 ** (p - 1):          # zero or subnormal
        return (sign << (p - 1 + ebits)) | m
    biased = e + (p - 1) - emin + 1
    return (sign << (p - 1 + ebits)) | (biased << (p - 1)) | (m - 2 ** (p - 1))


def dec_to_bits(text, ty):
    sign, v = dec_to_fraction(text)
    p, emin, emax, _ = FMT[ty]
    return bits_of(sign, round_binary(v, p, emin, emax), ty)


def classify(bits, ty):
    p, emin, emax, ebits = FMT[ty]
    ex = (bits >> (p - 1)) & ((1 << ebits) - 1)
    man = bits & ((1 << (p - 1)) - 1)
    sign = bits >> (p - 1 + ebits)
    if ex == (1 << ebits) - 1:
        return ("nan", sign) if man else ("inf", sign)
    return ("fin", sign)


def response_ok(text, bits, ty):
    """does the response text decode to exactly this float (C04)?"""
    kind, sign = classify(bits, ty)
    if kind == "nan":
        return text == b"9.91E+37"
    if kind == "inf":
        return text == (b"-9.9E+37" if sign else b"9.9E+37")
    try:
        return dec_to_bits(text, ty) == bits
    except ValueError:
        return False


def frac_to_decimal(fr):
    """exact decimal expansion of a non-negative rational whose denominator has only the factors 2 and 5"""
    n, d = fr.numerator, fr.denominator
    k = 0
    while d % 10 == 0:
        d //= 10
        k += 1
    while d % 2 == 0:
        d //= 2
        n *= 5
        k += 1
    while d % 5 == 0:
        d //= 5
        n *= 2
        k += 1
    if d != 1:
        raise ValueError("not a terminating decimal")
    s = str(n)
    if k == 0:
        return s
    s = s.rjust(k + 1, "0")
    return s[:-k] + "." + s[-k:]


def selftest(rng, n=2000):
    import struct
    for _ in range(n):
        b64 = rng.getrandbits(64)
        x = struct.unpack(">d", struct.pack(">Q", b64))[0]
        if x != x or x in (float("inf"), float("-inf")):
            continue
        t = repr(x).encode()
        assert dec_to_bits(t, "f64") == b64, (t, hex(b64))
        k = rng.choice([b"1", b"17", b"123456789", b"9007199254740993", b"0.1", b"4.35", b"1e23", b"8.5e-320"])
        assert dec_to_bits(k, "f64") == struct.unpack(">Q", struct.pack(">d", float(k)))[0]
    return True
