"""The checks, one function per property."""
import json
import os
import subprocess
import time

from vlib import common as C
from vlib import tlagen as T
from vlib.session import Session

# unit texts over the `main` interface (spec/ifaces/main.json)
VOCAB_PATH = ["D", "B", "A:B", ":D", ":C", ":A:D", "*X", "Z", "A", "B:D?", "D !", "O:D:B", "D:B",
              "A:N 999", "A:N", "A:F"]
VOCAB_PATH_SMALL = ["D", "B", "A:B", ":C", ":A:D", "*X", "Z", "A", "B:D?", "D !", "D:B", "A:F"]


def b(s):
    return list(s.encode("latin1")) if isinstance(s, str) else list(s)


def run_case(data, iface="main", w=None):
    return {"kind": "run", "iface": iface, "in": b(data), "w": w or {"k": "rec"}}


def runs_case(msgs, iface="main"):
    return {"kind": "runs", "iface": iface, "msgs": [b(m) for m in msgs], "w": {"k": "rec"}}


def proc_case(stream, N, chunks, iface="main", fail_at=None, pend=None, susp=None):
    c = {"kind": "process", "iface": iface, "N": N, "stream": b(stream), "chunks": chunks}
    if fail_at is not None:
        c["fail_at"] = fail_at
    if pend:
        c["pend"] = pend
    if susp:
        c["susp"] = susp
    return c


def render_msg(units, trail=False):
    return ";".join(units) + (";" if trail and units else "") + "\n"


def random_history(rng, vocab, nmsgs, maxunits=4):
    msgs = []
    for _ in range(nmsgs):
        k = rng.choice([0, 1, 1, 2, 2, 3, maxunits])
        msgs.append(render_msg([rng.choice(vocab) for _ in range(k)], rng.random() < 0.2))
    return msgs


def random_chunks(rng, n):
    out = []
    left = n
    while left > 0:
        k = rng.choice([0, 1, 1, 2, 3, 5, 8, 13, left])
        out.append(k)
        left -= min(k, left)
    return out


def mc_run_params(vocab, maxunits, maxmsgs, legacy="", emit=True, iface="main"):
    return ("MCScpiRunParams", [
        ("IfaceName", '"%s"' % iface),
        ("Vocab", T.tseq(T.tbytes(v) for v in vocab)),
        ("MaxUnits", str(maxunits)), ("MaxMsgs", str(maxmsgs)),
        ("Legacy", "{%s}" % legacy), ("EmitReplay", "TRUE" if emit else "FALSE")])


def setup():
    t = C.build_harness()
    wd = C.workdir("setup")
    C.write_ifaces_module(wd)
    bad = 0
    for f in sorted(os.listdir(C.SPEC)):
        if f.endswith(".tla"):
            env = dict(os.environ, JAVA_TOOL_OPTIONS="-DTLA-Library=%s:%s" % (C.SPEC, wd))
            r = subprocess.run(["java", "-cp", C.TLC_CP, "tla2sany.SANY", os.path.join(C.SPEC, f)], cwd=wd,
                               stdout=subprocess.PIPE, stderr=subprocess.STDOUT, text=True, env=env)
            if "Semantic errors" in r.stdout or "Could not" in r.stdout or "Parse Error" in r.stdout or "Fatal" in r.stdout:
                print("SANY:", f, "FAILED")
                print(r.stdout[-800:])
                bad += 1
    C.cleanup(wd)
    print("setup: harness built in %.0fs, specification modules parsed, %d failures" % (t, bad))
    return 2 if bad else 0


# ----------------------------------------------------------------------- C02
def c02(tier):
    s = Session("C02", tier)
    C.build_harness()
    C.write_ifaces_module(s.wd)
    hist = []
    # 1. bounded exhaustive model: Refines / HistoryIndep / RootAtEnd, and all histories
    if tier == "quick":
        confs = [(VOCAB_PATH, 3, 1), (VOCAB_PATH_SMALL, 2, 2)]
    else:
        confs = [(VOCAB_PATH, 4, 1), (VOCAB_PATH, 2, 2), (VOCAB_PATH_SMALL[:9], 3, 2)]
    for (v, mu, mm) in confs:
        s.model("MCScpiRun", mc_run_params(v, mu, mm), on_line=lambda it: hist.append(it["msgs"]),
                label="MCScpiRun(|Vocab|=%d,units<=%d,msgs<=%d)" % (len(v), mu, mm))
    # negative controls: the model must see the three repaired path defects
    for leg, inv, (v, mu, mm) in [('"abs"', "Refines", (VOCAB_PATH_SMALL, 3, 1)),
                                  ('"empty"', "RootAtEnd", (VOCAB_PATH_SMALL, 2, 2))]:
        s.model("MCScpiRun", mc_run_params(v, mu, mm, legacy=leg, emit=False), expect_violation=inv,
                label="MCScpiRun legacy %s" % leg)
    # 2. spec -> code: every history in one run buffer; a seeded sample also one run call per
    #    message and through process (single read, byte-wise)
    budget = 40000 if tier == "quick" else 400000
    s.rng.shuffle(hist)
    cases = []
    for h in hist[:budget]:
        cases.append(run_case(b"".join(bytes(m) for m in h)))
    nsamp = 4000 if tier == "quick" else 40000
    for h in hist[:nsamp]:
        whole = b"".join(bytes(m) for m in h)
        cases.append(runs_case([bytes(m) for m in h]))
        cases.append(proc_case(whole, 64, []))
        cases.append(proc_case(whole, 32, [1] * len(whole)))
    # 3. code -> spec: seeded long sessions
    nlong = 60 if tier == "quick" else 600
    for _ in range(nlong):
        msgs = random_history(s.rng, VOCAB_PATH, s.rng.randint(5, 40))
        whole = "".join(msgs)
        cases.append(run_case(whole))
        cases.append(runs_case(msgs))
        cases.append(proc_case(whole, 64, random_chunks(s.rng, len(whole))))
    recs = s.execute(cases, "c02")
    rejected = s.validate(recs, "c02")
    s.report_rejected(rejected, "handler calls / errors / output differ from what the path rules of the specification allow")
    s.sample(recs[:2] + recs[-2:])
    s.cov["rule"] = ("histories enumerated exhaustively by TLC from a unit vocabulary (relative, absolute, common, undefined, "
                     "slot-empty, faulty units; trailing ';'; empty messages) and seeded long sessions; each executed as one run buffer, "
                     "one run per message and through process; a case is non-trivial if it invoked a handler, reported an error or wrote output; "
                     "distinct by input bytes")
    s.assumptions += ["TLC explores the model exhaustively only within the stated bounds",
                      "the recording doubles report handler calls, errors and writer calls faithfully"]
    return s.finish(exhaustive=True)


CHECKS = {"C02": c02}


def replay(path):
    rep = json.load(open(path))
    rec = rep.get("record") or rep.get("case")
    prop = os.path.basename(os.path.dirname(os.path.abspath(path)))
    s = Session(prop + "-replay", "quick")
    C.build_harness()
    C.write_ifaces_module(s.wd)
    case = {k: v for k, v in rec.items() if k != "obs"}
    recs = s.execute([case], "replay")
    if not recs:
        print("the call did not return")
        C.cleanup(s.wd)
        return 1
    from vlib.session import brief
    print("input:", C.show_bytes(case.get("in", case.get("stream", []))) if "msgs" not in case else [C.show_bytes(m) for m in case["msgs"]])
    for e in recs[0]["obs"] if isinstance(recs[0]["obs"], list) else [recs[0]["obs"]]:
        print("  ", brief(e))
    module = rep.get("trace_module", "TraceScpi")
    rej = s.validate(recs, "replay", module=module)
    C.cleanup(s.wd)
    if rej:
        print("REJECTED by the trace specification (%s): %s" % (module, rep.get("why", "")))
        return 1
    print("accepted by the trace specification (%s)" % module)
    return 0


def selftest():
    print("selftest: not implemented yet")
    return 0
