"""The checks, one function per property."""
import itertools
import json
import os
import subprocess
import time

from vlib import common as C
from vlib import tlagen as T
from vlib.session import Session

# unit texts over the `main` interface (spec/ifaces/main.json)
VOCAB_PATH = ["D", "B", "A:B", ":D", ":C", ":A:D", "*X", "Z", "A", "B:D?", "D !", "O:D:B", "D:B",
              "A:N 999", "A:N", "A:F", "B:D", "D?", "A:R 3"]
VOCAB_PATH_SMALL = ["D", "B", "A:B", ":C", ":A:D", "*X", "Z", "A", "B:D?", "D !", "D:B", "A:F"]


def b(s):
    return list(s.encode("latin1")) if isinstance(s, str) else list(s)


def run_case(data, iface="main", w=None):
    return {"kind": "run", "iface": iface, "in": b(data), "w": w or {"k": "rec"}}


def runs_case(msgs, iface="main"):
    return {"kind": "runs", "iface": iface, "msgs": [b(m) for m in msgs], "w": {"k": "rec"}}


def proc_case(stream, N, chunks, iface="main", fail_at=None, pend=None, susp=None):
    c = {"kind": "process", "iface": iface, "N": N, "stream": b(stream), "chunks": chunks}
    if fail_at is not None:
        c["fail_at"] = fail_at
    if pend:
        c["pend"] = pend
    if susp:
        c["susp"] = susp
    return c


def render_msg(units, trail=False):
    return ";".join(units) + (";" if trail and units else "") + "\n"


WS_NOISE = [chr(x) for x in list(range(0, 10)) + list(range(11, 33))]


def random_history(rng, vocab, nmsgs, maxunits=4, noise=0.0):
    """messages from a unit vocabulary; noise: probability of optional white space (any of the 32 bytes) before a
    unit and before ';' / the terminator (CR LF included)"""
    msgs = []
    for _ in range(nmsgs):
        k = rng.choice([0, 1, 1, 2, 2, 3, maxunits])
        units = [rng.choice(vocab) for _ in range(k)]
        if noise:
            units = [("".join(rng.choice(WS_NOISE) for _ in range(rng.randint(1, 2))) if rng.random() < noise else "") + u +
                     ("".join(rng.choice(WS_NOISE) for _ in range(rng.randint(1, 3))) if rng.random() < noise else "") for u in units]
        m = render_msg(units, rng.random() < 0.2)
        if noise and rng.random() < noise:
            m = m[:-1] + rng.choice(WS_NOISE) + "\n"
        msgs.append(m)
    return msgs


def random_chunks(rng, n):
    out = []
    left = n
    while left > 0:
        k = rng.choice([0, 1, 1, 2, 3, 5, 8, 13, left])
        out.append(k)
        left -= min(k, left)
    return out


def mc_run_params(vocab, maxunits, maxmsgs, legacy="", emit=True, iface="main"):
    return ("MCScpiRunParams", [
        ("IfaceName", '"%s"' % iface),
        ("Vocab", T.tseq(T.tbytes(v) for v in vocab)),
        ("MaxUnits", str(maxunits)), ("MaxMsgs", str(maxmsgs)),
        ("Legacy", "{%s}" % legacy), ("EmitReplay", "TRUE" if emit else "FALSE")])


def setup():
    t = C.build_harness()
    wd = C.workdir("setup")
    C.write_ifaces_module(wd)
    bad = 0
    for f in sorted(os.listdir(C.SPEC)):
        if f.endswith(".tla"):
            env = dict(os.environ, JAVA_TOOL_OPTIONS="-DTLA-Library=%s:%s:%s" % (C.SPEC, os.path.join(C.SPEC, "params"), wd))
            r = subprocess.run(["java", "-cp", C.TLC_CP, "tla2sany.SANY", os.path.join(C.SPEC, f)], cwd=wd,
                               stdout=subprocess.PIPE, stderr=subprocess.STDOUT, text=True, env=env)
            if "Semantic errors" in r.stdout or "Could not" in r.stdout or "Parse Error" in r.stdout or "Fatal" in r.stdout:
                print("SANY:", f, "FAILED")
                print(r.stdout[-800:])
                bad += 1
    C.cleanup(wd)
    print("setup: harness built in %.0fs, specification modules parsed, %d failures" % (t, bad))
    return 2 if bad else 0


# ----------------------------------------------------------------------- C02
def c02(tier):
    s = Session("C02", tier)
    C.build_harness()
    C.write_ifaces_module(s.wd)
    hist = []
    # 1. bounded exhaustive model: Refines / HistoryIndep / RootAtEnd, and all histories
    if tier == "quick":
        confs = [(VOCAB_PATH, 3, 1), (VOCAB_PATH_SMALL, 2, 2)]
    else:
        confs = [(VOCAB_PATH, 4, 1), (VOCAB_PATH, 2, 2), (VOCAB_PATH_SMALL[:9], 3, 2)]
    for (v, mu, mm) in confs:
        s.model("MCScpiRun", mc_run_params(v, mu, mm), on_line=lambda it: hist.append(it["msgs"]),
                label="MCScpiRun(|Vocab|=%d,units<=%d,msgs<=%d)" % (len(v), mu, mm))
    # negative controls: the model must see the three repaired path defects
    for leg, inv, (v, mu, mm) in [('"abs"', "Refines", (VOCAB_PATH_SMALL, 3, 1)),
                                  ('"empty"', "RootAtEnd", (VOCAB_PATH_SMALL, 2, 2))]:
        s.model("MCScpiRun", mc_run_params(v, mu, mm, legacy=leg, emit=False), expect_violation=inv,
                label="MCScpiRun legacy %s" % leg)
    # 2. spec -> code: every history in one run buffer; a seeded sample also one run call per
    #    message and through process (single read, byte-wise)
    budget = 25000 if tier == "quick" else 400000
    s.rng.shuffle(hist)
    cases = []
    for h in hist[:budget]:
        cases.append(run_case(b"".join(bytes(m) for m in h)))
    nsamp = 2500 if tier == "quick" else 40000
    for h in hist[:nsamp]:
        whole = b"".join(bytes(m) for m in h)
        cases.append(runs_case([bytes(m) for m in h]))
        cases.append(proc_case(whole, 64, []))
        cases.append(proc_case(whole, 32, [1] * len(whole)))
    # 3. code -> spec: seeded long sessions
    nlong = 60 if tier == "quick" else 600
    for _ in range(nlong):
        msgs = random_history(s.rng, VOCAB_PATH, s.rng.randint(5, 40), noise=s.rng.choice([0.0, 0.3]))
        whole = "".join(msgs)
        cases.append(run_case(whole))
        cases.append(runs_case(msgs))
        cases.append(proc_case(whole, 64, random_chunks(s.rng, len(whole))))
    pay = [m for m in c08_messages(s.rng, "quick") if m.count(b"\n") > 1 and b";" in m and len(m) <= 40]
    s.rng.shuffle(pay)
    for m in pay[:60 if tier == "quick" else 600]:
        n = len(m)
        cases.append(procset_case(m, 64, [{"chunks": []}, {"chunks": [1] * n}] + [{"chunks": [k, n - k]} for k in range(1, n)]))
    for c in cases:
        if c["kind"] in ("run", "runs") and s.rng.random() < 0.15:
            c["susp"] = [s.rng.randint(0, 3) for _ in range(s.rng.randint(1, 5))]      # handler and writer futures return Pending
    recs = s.execute(cases, "c02")
    rejected = s.validate(recs, "c02")
    s.report_rejected(rejected, "handler calls / errors / output differ from what the path rules of the specification allow")
    # 4. the same library with its optional `defmt` feature enabled: a seeded part of the same cases, same specification
    C.build_harness_defmt()
    sub = [c for c in cases if c["kind"] in ("run", "runs")]
    s.rng.shuffle(sub)
    sub = sub[:6000 if tier == "quick" else 60000] + [c for c in cases if c["kind"] not in ("run", "runs")][:600 if tier == "quick" else 6000]
    recs_d = s.execute(sub, "c02defmt", build="defmt")
    s.cov["executions_with_defmt_feature"] = len(recs_d)
    rejected = s.validate(recs_d, "c02defmt")
    s.report_rejected(rejected, "with the library's defmt feature enabled: handler calls / errors / output differ from what the path rules allow")
    s.sample(recs[:2] + recs[-2:])
    s.cov["rule"] = ("histories enumerated exhaustively by TLC from a unit vocabulary (relative, absolute, common, undefined, "
                     "slot-empty, faulty units; trailing ';'; empty messages) and seeded long sessions; each executed as one run buffer, "
                     "one run per message and through process; a case is non-trivial if it invoked a handler, reported an error or wrote output; "
                     "distinct by input bytes")
    s.assumptions += ["TLC explores the model exhaustively only within the stated bounds",
                      "the recording doubles report handler calls, errors and writer calls faithfully"]
    return s.finish(exhaustive=True)


CHECKS = {"C02": c02}


def replay(path):
    rep = json.load(open(path))
    rec = rep.get("record") or rep.get("case")
    prop = os.path.basename(os.path.dirname(os.path.abspath(path)))
    if rec is None:
        # compile outcomes (C14), build probes (C13) and queue soaks (C09) are not single records: show what was
        # reported and re-run the property's quick check, which reproduces it on /repo's current tree
        print("reported:", rep.get("why"))
        for k in ("decls", "attrs", "K", "operations_before", "output"):
            if k in rep:
                print("  %s: %s" % (k, str(rep[k])[:600]))
        print("re-running the quick check of %s" % prop)
        return CHECKS[prop]("quick") if prop in CHECKS else 2
    s = Session(prop + "-replay", "quick")
    C.build_harness()
    C.write_ifaces_module(s.wd)
    case = {k: v for k, v in rec.items() if k != "obs"}
    if case.get("kind") == "parse":
        rep2, fails = run_replay(s, [case], "replay")
        C.cleanup(s.wd)
        print("parse(%r) from %s" % (C.show_bytes(case["in"]), [C.show_bytes(m) for m in case["start"]]))
        if fails:
            print("observed:", json.dumps(fails[0]["obs"]))
            print("allowed :", json.dumps(case["exp"]))
            print("REJECTED: the verdict is not one the specification pins")
            return 1
        print("the observed verdict is one the specification allows")
        return 0
    if case.get("build") == "defmt":
        C.build_harness_defmt()
    recs = s.execute([case], "replay", build=case.get("build"))
    if not recs:
        print("the call did not return")
        C.cleanup(s.wd)
        return 1
    from vlib.session import brief
    print("input:", C.show_bytes(case.get("in", case.get("stream", []))) if "msgs" not in case else [C.show_bytes(m) for m in case["msgs"]])
    o = recs[0]["obs"]
    if isinstance(o, list) and (not o or isinstance(o[0], dict)):
        for e in o[:60]:
            print("   ", str(brief(e))[:200])
    else:
        groups = o.items() if isinstance(o, dict) else [("v", o)]
        for k, vs in groups:
            vs = vs if vs and isinstance(vs[0], list) else [vs]
            for i, v in enumerate(vs[:12]):
                sem = [brief(e) for e in v if e.get("e") not in ("read",)]
                print("   %s[%d]: %s" % (k, i, str(sem)[:300]))
    module = rep.get("trace_module", "TraceScpi")
    rej = s.validate(recs, "replay", module=module)
    C.cleanup(s.wd)
    if rej:
        print("REJECTED by the trace specification (%s): %s" % (module, rep.get("why", "")))
        return 1
    print("accepted by the trace specification (%s)" % module)
    return 0


def selftest():
    """Binding demonstration: recorded traces of the real code are accepted; the same traces with
    one field corrupted, one event dropped, two events swapped, a flush removed or a response moved
    behind the next read are each rejected by the trace specification."""
    import copy
    s = Session("selftest", "quick")
    C.build_harness()
    C.write_ifaces_module(s.wd)
    base = [run_case("A:B;:A:E? 'q';:A:N 7\nB:D?\n"),
            run_case("A:F;:C\nZ\nD\n"),
            proc_case("B:D?\nA:E? 'x'\nC\n", 32, [5, 3, 100]),
            {"kind": "queue", "K": 2, "ops": [{"op": "push", "n": -113}, {"op": "push", "n": -224}, {"op": "push", "n": -104},
                                              {"op": "count"}, {"op": "pop"}, {"op": "pop"}, {"op": "pop"}]}]
    pd = procset_case(b"A:K #13abc;:B:D?\n", 64, [{"chunks": []}, {"chunks": [4, 4, 100]}])
    pd["kind"] = "procdiff"
    pd["expect_out"] = list(b"7\n")
    base.append(pd)
    recs = s.execute(base, "self")
    rej = s.validate(recs, "self-ok", chunk=1)
    if rej:
        raise C.ToolError("selftest: an unmodified trace was rejected")
    mutants = []

    def mut(i, name, f):
        r = copy.deepcopy(recs[i])
        f(r["obs"])
        mutants.append((name, r))
    mut(0, "call id changed", lambda o: o[0].__setitem__("id", o[0]["id"] + 1))
    mut(0, "argument byte changed", lambda o: [e for e in o if e["e"] == "call" and e["args"]][0]["args"][0]["b"].__setitem__(0, 120))
    mut(0, "response byte changed", lambda o: [e for e in o if e["e"] == "out"][0]["b"].__setitem__(1, 65))
    mut(0, "flush dropped", lambda o: o.remove([e for e in o if e["e"] == "flush"][0]))
    mut(0, "two calls swapped", lambda o: o.__setitem__(slice(0, 1), []) or o.insert(3, {"e": "call", "id": 0, "args": []}))
    mut(1, "error number changed", lambda o: [e for e in o if e["e"] == "err"][0].__setitem__("n", -999))
    mut(1, "error reported twice", lambda o: o.insert(2, copy.deepcopy([e for e in o if e["e"] == "err"][0])))
    mut(1, "call after the faulty message dropped", lambda o: o.remove([e for e in o if e["e"] == "call"][-1]))
    mut(2, "transport flush dropped", lambda o: o.remove([e for e in o if e["e"] == "aflush"][0]))

    def move_write(o):
        w = [k for k, e in enumerate(o) if e["e"] == "write"][0]
        ev = o.pop(w)
        nxt = [k for k, e in enumerate(o) if k >= w and e["e"] == "read"][0]
        o.insert(nxt + 1, ev)
    mut(2, "response written after the next read", move_write)
    mut(2, "process returned Ok", lambda o: o[-1].__setitem__("res", "ok"))
    mut(3, "queue count wrong", lambda o: [e for e in o if e["r"] == "count"][0].__setitem__("c", 3))
    mut(3, "overflow marker missing", lambda o: [e for e in o if e["r"] == "pop"][1].__setitem__("n", -224))
    mut(4, "one schedule lost its response", lambda o: o["v"][1].remove([e for e in o["v"][1] if e["e"] == "write"][0]))
    mut(4, "one schedule called another handler", lambda o: [e for e in o["v"][1] if e["e"] == "call"][0].__setitem__("id", 0))
    bad = 0
    for name, r in mutants:
        rej = s.validate([r], "self-" + str(abs(hash(name)) % 10**6), chunk=1)
        print("  %-42s %s" % (name, "rejected" if rej else "ACCEPTED (binding hole!)"))
        if not rej:
            bad += 1
    # the implementation-shaped layer: a session whose offered room differs from the model's read_offset is accepted by the
    # properties' relation (no property speaks of it) but must be reported as IMPL-DRIFT
    r = copy.deepcopy(recs[2])
    rd = [e for e in r["obs"] if e["e"] == "read"][1]
    rd["cap"] -= 1
    s.drift = []
    rej = s.validate([r], "self-drift", chunk=1)
    ok = (not rej) and len(s.drift) == 1
    print("  %-42s %s" % ("room offered to the second read changed", "accepted, IMPL-DRIFT reported" if ok else "NOT reported as drift (binding hole!)"))
    if not ok:
        bad += 1
    s.drift = []
    C.cleanup(s.wd)
    print("selftest: %d unmodified traces accepted, %d of %d mutated traces rejected" % (len(recs), len(mutants) - bad, len(mutants)))
    return 2 if bad else 0


# ----------------------------------------------------------------------- C07
VOCAB_FAULT = ["A:S \"ab\xc3\"", "A:S '\xe2\x82'", "A:E? 'x\xf0\x9f'", "D", "A:B", ":C", "*X", "B:D?", "Z", "A", "D !", "A:N", "A:N 999", "A:N 'x'", "A:T 2", "A:F", "A:G?",
               "A:N 7", "A:E? 'q'", "D \"a'b\" !", "Z \"it's\"", "A:S 'say \"hi' x", "B:D", "D?", "A:B:D", "A:R 3"]
TINY_SIGMA = "AB:?;\n \"!"


def compositions(n):
    """all ways to split n bytes into a sequence of positive chunk sizes"""
    if n == 0:
        return [[]]
    out = []
    for mask in range(1 << (n - 1)):
        cur, parts = 1, []
        for i in range(n - 1):
            if mask >> i & 1:
                parts.append(cur)
                cur = 1
            else:
                cur += 1
        parts.append(cur)
        out.append(parts)
    return out


def variants_for(rng, n, full):
    """delivery schedules for a stream of n bytes"""
    vs = [{"chunks": []}, {"chunks": [1] * n}]
    if full and n <= 7:
        vs += [{"chunks": c} for c in compositions(n)[1:-1]]
    else:
        for _ in range(6):
            vs.append({"chunks": random_chunks(rng, n)})
    # empty reads interleaved, suspended futures
    c = random_chunks(rng, n)
    vs.append({"chunks": [x for k in c for x in (0, k)]})
    vs.append({"chunks": random_chunks(rng, n), "pend": [rng.randint(0, 2) for _ in range(5)],
               "susp": [rng.randint(0, 2) for _ in range(3)]})
    return vs


def msgs_fit(msgs, N):
    return all(len(m) <= N and m.count(b"\n" if isinstance(m, bytes) else "\n") == 1 for m in msgs)


def procset_case(stream, N, variants, iface="main", msgs=None):
    c = {"kind": "procset", "iface": iface, "N": N, "stream": b(stream), "variants": variants}
    if msgs is not None:
        c["msgs"] = [b(m) for m in msgs]
    return c


def mc_proc_params(iface, sigma, N, maxlen, legacy="", faults=True):
    return ("MCScpiProcessParams", [
        ("IfaceName", '"%s"' % iface), ("Sigma", "{%s}" % ",".join(str(ord(c)) for c in sigma)),
        ("N", str(N)), ("MaxLen", str(maxlen)), ("Legacy", "{%s}" % legacy),
        ("ModelFaults", "TRUE" if faults else "FALSE")])


C07_EXTRA = ["A:S \"x\ny\"", "A:K #13a\nb", "A:E? 'a long answer, longer than its query'", "A:H? #215fifteen\nbytes..", "MEAS:VOLT?", "A:B:D?",
             "A:E? \"r\ns\"", "*Q?", "C?", "*I?", "K2?", "M?", "L?"]


def c07(tier):
    s = Session("C07", tier)
    C.build_harness()
    C.write_ifaces_module(s.wd)
    # 1. implementation-shaped process vs the byte-wise ideal, every chunk size and content at every read
    mcs = [(4, 6)] if tier == "quick" else [(3, 7), (4, 7), (5, 7), (6, 8)]
    for (N, ml) in mcs:
        s.model("MCScpiProcess", mc_proc_params("tiny", TINY_SIGMA, N, ml), workers=8 if tier == "quick" else 14,
                label="MCScpiProcess(N=%d,stream<=%d)" % (N, ml), timeout=3000, heap="16g")
    s.model("MCScpiProcess", mc_proc_params("tiny", TINY_SIGMA, 4, 6, legacy='"overflow"'), expect_violation="SameCarry",
            label="MCScpiProcess legacy overflow-before-compaction")
    # the state machine TLC explores and the function recorded sessions are compared with describe the same loop
    tN, tL = (3, 4) if tier == "quick" else (4, 5)
    s.model("MCScpiProcessTie", mc_proc_params("tiny", 'AB:?;\n"', tN, tL, faults=False), workers=8 if tier == "quick" else 14,
            label="MCScpiProcessTie(N=%d,stream<=%d): MCScpiProcess = ScpiProcessImpl folded over the reads" % (tN, tL), timeout=3000)
    s.model("MCScpiProcessTie", mc_proc_params("tiny", 'AB:?;\n"', 3, 4, legacy='"overflow"', faults=False), expect_violation="Tied",
            label="MCScpiProcessTie legacy overflow-before-compaction (the two descriptions must disagree)")
    cases = []
    # 2a. every stream over the tiny alphabet up to a length bound, every composition, N around the length
    import itertools
    L = 4 if tier == "quick" else 5
    for n in range(1, L + 1):
        for t in itertools.product(TINY_SIGMA, repeat=n):
            st = "".join(t)
            if "\n" not in st:
                continue
            for N in sorted({max(1, n - 1), n, n + 1, 16}):
                cases.append(procset_case(st, N, [{"chunks": c} for c in compositions(n)], iface="tiny"))
    # 2b. message streams over the main interface: path rules, faults, queries
    hist = []
    s.model("MCScpiRun", mc_run_params(VOCAB_FAULT[:12] if tier == "quick" else VOCAB_FAULT, 2, 2, emit=True), on_line=lambda it: hist.append(it["msgs"]),
            label="MCScpiRun(fault vocabulary, units<=2, msgs<=2)")
    s.rng.shuffle(hist)
    nh = 2500 if tier == "quick" else 30000
    for hi_, h in enumerate(hist[:nh]):
        msgs = [bytes(m) for m in h]
        if hi_ % 3 == 1:      # optional white space (any of the 32 bytes, CR and VT included) directly before the terminator
            wsb = [x for x in range(0, 33) if x != 10]
            msgs = [m[:-1] + bytes([s.rng.choice([11, 13, 32, 0, s.rng.choice(wsb)])]) + b"\n" for m in msgs]
        whole = b"".join(msgs)
        n = len(whole)
        N = s.rng.choice([min(64, max(len(m) for m in msgs)), min(n, 64), min(n + 1, 64), s.rng.randint(1, 64), 32, 64])
        fit = N if msgs_fit(msgs, N) else None
        cases.append(procset_case(whole, N, variants_for(s.rng, n, False), msgs=msgs if fit else None))
    # 2c. seeded long streams, also arbitrary bytes
    nlong = 30 if tier == "quick" else 400
    for i in range(nlong):
        msgs = [m.encode("latin1") for m in random_history(s.rng, VOCAB_FAULT + VOCAB_PATH + C07_EXTRA, s.rng.randint(8, 40 if tier == "quick" else 80),
                                                           noise=0.0 if i % 3 == 0 else 0.4)]
        whole = b"".join(msgs)
        if i % 4 == 3:   # corrupt: arbitrary bytes
            ba = bytearray(whole)
            for _ in range(len(ba) // 10 + 1):
                ba[s.rng.randrange(len(ba))] = s.rng.randrange(256)
            whole, msgs = bytes(ba), None
        N = s.rng.choice([8, 16, 47, 64, 128])
        ok = msgs is not None and msgs_fit(msgs, N)
        cases.append(procset_case(whole, N, variants_for(s.rng, len(whole), False), msgs=msgs if ok else None))
    for _ in range(60 if tier == "quick" else 600):
        head = s.rng.choice(["A:K #13a\nb", "A:S \"x\ny\"", "A:H? #12\n\n", "A:E? 'p\nq'"])
        tail = [s.rng.choice(["*I?", "*I?", "MEAS:VOLT?", "A:B:D?", "B:D?", "C"]) for _ in range(s.rng.randint(2, 6))]
        whole = (head + "\n" + "\n".join(tail) + "\n").encode("latin1")
        for N in (64, 128):
            if len(whole) <= N:
                cases.append(procset_case(whole, N, variants_for(s.rng, len(whole), False)))
    # 2d. several answered messages per read, response sizes in every order relative to N (small then large, large then small ...)
    ladder = ["B:D?", "A:E? 'qqq'", "K2?", "M?", "L?", "A:H? #15hello", "C"]
    rsize = {"B:D?": 2, "A:E? 'qqq'": 6, "K2?": 13, "M?": 23, "L?": 43, "A:H? #15hello": 9, "C": 0}
    for N in (16, 24, 32, 48, 64, 128):
        for q1 in ladder:
            for q2 in ladder:
                tail = s.rng.choice(ladder)
                for msgs in ([q1, q2], [q1, q2, tail]):
                    whole = ("\n".join(msgs) + "\n").encode("latin1")
                    ms = [(m + "\n").encode("latin1") for m in msgs]
                    if msgs_fit(ms, N) and (len(msgs) == 2 or s.rng.random() < 0.3):
                        # the comparison with run applies where every response fits the N-byte response buffer as well
                        cases.append(procset_case(whole, N, [{"chunks": []}, {"chunks": [len(m) for m in ms]}, {"chunks": [1] * len(whole)}],
                                                  msgs=ms if max(rsize[m] for m in msgs) <= N else None))
    # 2e. a hand-written Interface over two generated command sets whose root_node() changes at run time: every schedule and
    #     run-one-at-a-time must agree (no declaration set describes it, so the judgement is differential: kind procdiff)
    dv = ["MODE:B", "MODE:A", "VAL?", "ONLYA?", "ONLYB?", "SH:X?", "SH:Y?", "SH:SET 3", "SH:X?;Y?", "MODE:B;VAL?", "VAL?;:MODE:A", "Z?", ":VAL?"]
    for _ in range(120 if tier == "quick" else 1500):
        msgs = [m.encode("latin1") for m in random_history(s.rng, dv, s.rng.randint(2, 9), maxunits=2)]
        whole = b"".join(msgs)
        N = s.rng.choice([16, 32, 64])
        c = procset_case(whole, N, variants_for(s.rng, len(whole), False), iface="dynr", msgs=msgs if msgs_fit(msgs, N) else None)
        c["kind"] = "procdiff"
        cases.append(c)
    recs = s.execute(cases, "c07")
    # the comparison with run (unbounded writer) is not owed for a session in which the responses to one message exceeded the
    # N-byte response buffer of process (-223 Too much data; the specification accepts that error only where they do not fit)
    for r in recs:
        if r["kind"] == "procset" and "runs" in r["obs"] and any(e.get("n") == -223 for v in r["obs"]["v"] for e in v):
            del r["obs"]["runs"]
            s.cov["run_comparison_skipped_response_overflow"] = s.cov.get("run_comparison_skipped_response_overflow", 0) + 1
    rejected = s.validate(recs, "c07", chunk=400 if tier == "quick" else 800)
    s.report_rejected(rejected, "process produced different handler calls / errors / response bytes for two delivery schedules of one stream, "
                                "or an outcome the stream semantics of the specification does not allow")
    s.sample(recs[:1] + recs[-1:])
    s.cov["delivery_schedules_executed"] = sum(len(c["variants"]) for c in cases)
    s.cov["rule"] = ("every byte stream over a 9-symbol alphabet up to the length bound under every composition into reads and four "
                     "buffer sizes; TLC-enumerated and seeded message streams under seeded schedules (single bytes, empty reads, exact "
                     "fill, suspended futures); non-trivial = invoked a handler, reported an error or wrote output; distinct by stream")
    s.assumptions += ["the scripted transport delivers exactly the scheduled chunks", "bounds as stated in coverage.models"]
    return s.finish(exhaustive=True)


CHECKS["C07"] = c07


# ----------------------------------------------------------------------- C06
def c06(tier):
    s = Session("C06", tier)
    C.build_harness()
    C.write_ifaces_module(s.wd)
    hist = []
    confs = [(VOCAB_FAULT, 3, 1), (VOCAB_FAULT[:12], 2, 2)] if tier == "quick" else \
        [(VOCAB_FAULT, 3, 1), (VOCAB_FAULT, 2, 2), (VOCAB_FAULT[:10], 1, 3)]
    for (v, mu, mm) in confs:
        s.model("MCScpiRun", mc_run_params(v, mu, mm), on_line=lambda it: hist.append(it["msgs"]),
                label="MCScpiRun(fault vocabulary %d, units<=%d, msgs<=%d)" % (len(v), mu, mm), workers=10)
    s.model("MCScpiRun", mc_run_params(VOCAB_FAULT[:12], 2, 2, legacy='"error"', emit=False), expect_violation="Refines",
            label="MCScpiRun legacy: run returns at a faulty message")
    s.rng.shuffle(hist)
    cases = []
    n1 = 30000 if tier == "quick" else 300000
    for h in hist[:n1]:
        cases.append(run_case(b"".join(bytes(m) for m in h)))
    n2 = 5000 if tier == "quick" else 60000
    for h in hist[:n2]:
        msgs = [bytes(m) for m in h]
        whole = b"".join(msgs)
        cases.append(proc_case(whole, 64, []))
        cases.append(proc_case(whole, 32, [1] * len(whole)))
        cases.append(proc_case(whole, 32, [len(m) for m in msgs]))
    for _ in range(60 if tier == "quick" else 600):
        msgs = random_history(s.rng, VOCAB_FAULT, s.rng.randint(5, 40), maxunits=3, noise=s.rng.choice([0.0, 0.3]))
        whole = "".join(msgs)
        cases.append(run_case(whole))
        cases.append(proc_case(whole, 64, random_chunks(s.rng, len(whole))))
        cases.append(proc_case(whole, 47, [len(m) for m in msgs]))
    for c in cases:
        if c["kind"] in ("run", "runs") and s.rng.random() < 0.15:
            c["susp"] = [s.rng.randint(0, 3) for _ in range(s.rng.randint(1, 5))]      # handler and writer futures return Pending
    for K in (1, 4):
        for _ in range(30 if tier == "quick" else 300):
            msgs = random_history(s.rng, QUEUE_VOCAB + ["D !"], s.rng.randint(3, 25), maxunits=3, noise=s.rng.choice([0.0, 0.3]))
            whole = "".join(msgs)
            cases.append(run_case(whole, iface="queue%d" % K))
            cases.append(proc_case(whole, 64, random_chunks(s.rng, len(whole)), iface="queue%d" % K))
    recs = s.execute(cases, "c06")
    rejected = s.validate(recs, "c06")
    s.report_rejected(rejected, "a faulty message was not reported exactly once, or it changed what an earlier unit / a later message did")
    s.sample(recs[:2] + recs[-1:])
    s.cov["rule"] = ("every history TLC builds from a vocabulary with all five fault kinds (syntax, undefined header and empty slot, "
                     "parameter count, unconvertible parameter of three kinds, handler error on command and query) at every position, "
                     "as one run buffer and through process (single read, byte-wise, message-wise); seeded long sessions; "
                     "non-trivial = reported an error or invoked a handler; distinct by input")
    s.assumptions += ["fault + newline inside a payload is free territory (C06 speaks of complete messages)"]
    return s.finish(exhaustive=True)


CHECKS["C06"] = c06


# ----------------------------------------------------------------------- C10
def c10(tier):
    s = Session("C10", tier)
    C.build_harness()
    C.write_ifaces_module(s.wd)
    for (N, ml) in ([(4, 6)] if tier == "quick" else [(3, 7), (5, 7)]):
        s.model("MCScpiProcess", mc_proc_params("tiny", TINY_SIGMA, N, ml), workers=8,
                label="MCScpiProcess(N=%d,stream<=%d) Answered/DoneIsError with EnvFail" % (N, ml), timeout=3000, heap="12g")
    hist = []
    vocab = ["D", "A:B", "B:D?", ":C?", "*Q?", "Z", "D !", "A:F", "A:G?", "A:E? 'q'", "MEAS:VOLT?", "A:N 7"]
    s.model("MCScpiRun", mc_run_params(vocab, 2, 2, emit=True), on_line=lambda it: hist.append(it["msgs"]),
            label="MCScpiRun(query vocabulary, units<=2, msgs<=2)")
    s.rng.shuffle(hist)
    cases = []
    for h in hist[:(1500 if tier == "quick" else 15000)]:
        msgs = [bytes(m) for m in h]
        whole = b"".join(msgs)
        sched = s.rng.choice([[], [1] * len(whole), [len(m) for m in msgs], random_chunks(s.rng, len(whole))])
        cases.append({"kind": "failset", "iface": "main", "N": s.rng.choice([16, 32, 64]), "stream": b(whole), "chunks": sched})
    for _ in range(30 if tier == "quick" else 300):
        msgs = random_history(s.rng, vocab, s.rng.randint(3, 12), maxunits=3, noise=s.rng.choice([0.0, 0.3]))
        whole = "".join(msgs)
        cases.append({"kind": "failset", "iface": "main", "N": 64, "stream": b(whole), "chunks": random_chunks(s.rng, len(whole))})
    # a payload that is still open when the buffer is full, with a line feed inside it at every position around the end of the
    # buffer (the last byte of a full buffer is a line feed that terminates nothing), then a query that must still be answered
    for N in (8, 16, 32):
        for pos in range(max(7, N - 4), N + 3):
            for head in ("A:S \"", "A:K #3999", "A:E? '"):
                if pos <= len(head):
                    continue
                msg = head + "a" * (pos - len(head) - 1) + "\n" + "bbb" + ("\"" if head[-1] == '"' else "'") + "\nB:D?\nB:D?\n"
                cases.append({"kind": "failset", "iface": "main", "N": N, "stream": b(msg), "chunks": s.rng.choice([[], [1] * len(msg), [5] * len(msg)])})
    for L in range(0, 141):
        msg = "A:E? '%s'\n" % ("a" * L)
        for N in (128, 1024):
            cases.append({"kind": "failset", "iface": "main", "N": N, "stream": b(msg), "chunks": s.rng.choice([[], [7, 200]])})
    for _ in range(40 if tier == "quick" else 400):
        a, c = s.rng.randint(0, 70), s.rng.randint(0, 70)
        msg = "A:E? '%s';:A:E? \"%s\"\nB:D?\n" % ("x" * a, "y" * c)
        cases.append({"kind": "failset", "iface": "main", "N": s.rng.choice([128, 1024]), "stream": b(msg), "chunks": []})
    # very large buffers and messages (state wider than 16 bits): a 70 000-byte block upload followed by a query, through
    # process::<131072>, whole and in 1460-byte reads - judged by the monitors, the end conditions and schedule independence
    for size in ((70000,) if tier == "quick" else (65535, 65536, 70000, 100000)):
        msg = b"A:K " + block(bytes((k * 7) % 251 for k in range(size))) + b";:B:D?\nB:D?\n"
        c = procset_case(msg, 131072, [{"chunks": []}, {"chunks": [1460] * (len(msg) // 1460 + 1)}, {"chunks": [65536, 1, 65536]}])
        c["kind"] = "procdiff"
        c["expect_out"] = list(b"7\n7\n")
        cases.append(c)
    recs = s.execute(cases, "c10")
    s.cov["injected_faults"] = sum(len(r["obs"].get("f", [])) for r in recs)
    rejected = s.validate(recs, "c10", chunk=150)
    s.report_rejected(rejected, "process read on before answering, wrote something that is not a response, or did not end at once with the transport's own error")
    s.sample(recs[:1])
    s.cov["rule"] = ("message streams from a query-heavy vocabulary under four kinds of read schedules; each session once fault-free and "
                     "once per position of its read/write/flush call sequence with a unique error token injected there; "
                     "non-trivial = session with at least one response; distinct by stream")
    return s.finish(exhaustive=False)


CHECKS["C10"] = c10


# ----------------------------------------------------------------------- C08
STR_ALPHA = [b"a", b";", b",", b":", b"#", b" ", b"\n", "é".encode("utf8"), None]   # None = the other quote
BLK_ALPHA = [0, 10, 59, 44, 34, 255]


def quoted(payload, q):
    return q + payload + q


def block(payload):
    n = str(len(payload)).encode()
    return b"#" + str(len(n)).encode() + n + bytes(payload) if payload else b"#10"


def payload_strings(maxlen):
    import itertools
    for q in (b'"', b"'"):
        other = b"'" if q == b'"' else b'"'
        for n in range(0, maxlen + 1):
            for t in itertools.product(STR_ALPHA, repeat=n):
                yield quoted(b"".join(other if x is None else x for x in t), q)


def payload_blocks(maxlen):
    import itertools
    for n in range(0, maxlen + 1):
        for t in itertools.product(BLK_ALPHA, repeat=n):
            yield block(bytes(t))


def c08_messages(rng, tier):
    """well-formed messages whose payloads contain separators, quotes and newlines, at every
    argument and unit position, continued by a RELATIVE unit (so the path must survive)"""
    msgs = []
    L = 2 if tier == "quick" else 3
    strs = list(payload_strings(L))
    blks = list(payload_blocks(L)) + [block(bytes(rng.choice(BLK_ALPHA) for _ in range(k))) for k in (9, 10, 11, 12)]
    for p in strs:
        msgs.append(b"A:S " + p + b"\n")
        msgs.append(b"A:B;S " + p + b";B\n")
        msgs.append(b"A:E? " + p + b";B;:C\n")
        msgs.append(b"A:P 7," + p + b",#12ab;D\n")
    for p in blks:
        msgs.append(b"A:K " + p + b"\n")
        msgs.append(b"A:B;K " + p + b";B\n")
        msgs.append(b"A:H? " + p + b";B\n")
        msgs.append(b"A:P 7,'s'," + p + b";D;:B:D?\n")
    for n in (63, 64, 65, 127, 128, 200, 255, 256, 257, 300, 511, 512, 600, 900):
        blk = block(bytes(rng.randrange(256) for _ in range(n - 2)) + b"\n;")
        txt = quoted(("".join(rng.choice(["a", ";", "\n", "é", ","]) for _ in range(n))).encode("utf8"), b"'")
        msgs.append(b"A:B;K " + blk + b";B\n")
        msgs.append(b"A:H? " + blk + b";D\n")
        msgs.append(b"A:B;S " + txt + b";B\n")
    # payloads that themselves look like program syntax: block headers, numbers, headers, separators, terminators
    syn = [b"#15\n", b"#15\nab", b"#299\nabc", b"#10\n", b"#H1F\n", b"*X\n", b":A:B\n", b"A:S 'x'\n", b";A:B;\n", b"1,2,#13\n", b"#11\n#11\n", b"#9\n",
           b"\n#15", b"x#13\n\n\n", b"#15#15\n", b"#216\n"]
    for t in syn:
        for q in (b'"', b"'"):
            msgs.append(b"A:S " + quoted(t, q) + b"\n")
            msgs.append(b"A:B;S " + quoted(t, q) + b";B\nD\n")
            msgs.append(b"A:E? " + quoted(t, q) + b";B\n")
        msgs.append(b"A:K " + block(t) + b"\n")
        msgs.append(b"A:B;K " + block(b"ab" + t + b"cd") + b";B\nD\n")
        msgs.append(b"A:P 7," + quoted(t, b"'") + b"," + block(t) + b";B\n")
    for p1 in (b'"x\ny"', b"'\n'", b"'a;\n,b'"):
        for p2 in (b"#13a\nb", b"#11\n", b"#14;\n,\n"):
            msgs.append(b"A:S " + p1 + b";K " + p2 + b";B\n")
            msgs.append(b"A:E? " + p1 + b";H? " + p2 + b";B;:C\n")
            msgs.append(b"A:K " + p2 + b";S " + p1 + b";E? " + p1 + b";B\n")
    for _ in range(200 if tier == "quick" else 3000):
        # longer seeded payloads: arbitrary UTF-8 strings, all byte values in blocks
        k = rng.randint(4, 24)
        if rng.random() < 0.5:
            txt = "".join(rng.choice(["a", ";", ",", "\n", " ", "'", "#", ":", "é", "€", "\U0001F600", "\x00", "\r"]) for _ in range(k))
            p = quoted(txt.replace('"', "").encode("utf8"), b'"')
            msgs.append(rng.choice([b"A:B;S " + p + b";B\n", b"A:E? " + p + b";D\n", b"A:P 1," + p + b",#10;B\n"]))
        else:
            p = block(bytes(rng.randrange(256) for _ in range(k)))
            msgs.append(rng.choice([b"A:B;K " + p + b";B\n", b"A:H? " + p + b";D\n", b"A:P 1,''," + p + b";B\n"]))
    return msgs


def c08(tier):
    s = Session("C08", tier)
    C.build_harness()
    C.write_ifaces_module(s.wd)
    # the scanner model: payload phases are opaque (action property PayloadOpaque)
    s.model("MCScpiSyntax", ("MCScpiSyntaxParams", [
        ("IfaceName", '"main"'), ("Sigma", "{%s}" % ",".join(str(x) for x in [97, 59, 44, 58, 35, 34, 39, 32, 10, 49, 195, 169])),
        ("MaxLen", "4" if tier == "quick" else "5"), ("Prefix", T.tbytes("A:S ")), ("Starts", "<< <<>> >>"), ("EmitReplay", "FALSE")]),
        label="MCScpiSyntax(payload alphabet after 'A:S ')", workers=8)
    s.model("MCScpiSyntax", ("MCScpiSyntaxParams", [
        ("IfaceName", '"main"'), ("Sigma", "{%s}" % ",".join(str(x) for x in [0, 10, 59, 44, 34, 255, 49, 50, 35])),
        ("MaxLen", "4" if tier == "quick" else "5"), ("Prefix", T.tbytes("A:K #")), ("Starts", "<< <<>> >>"), ("EmitReplay", "FALSE")]),
        label="MCScpiSyntax(block alphabet after 'A:K #')", workers=8)
    if tier == "thorough":
        # process model over an alphabet that can spell a message with a newline inside a string ('A:S "<NL>"<NL>'):
        # carry-over of the unfinished unit and of the path, for every chunking
        s.model("MCScpiProcess", mc_proc_params("tiny", 'A:S "\n', 9, 8), workers=14, timeout=3000, heap="24g",
                label="MCScpiProcess(string alphabet, N=9, stream<=8)")
    msgs = c08_messages(s.rng, tier)
    cases = []
    for m in msgs:
        cases.append(run_case(m))
        n = len(m)
        vs = [{"chunks": []}, {"chunks": [1] * n}]
        pts = range(1, n) if tier == "thorough" or n <= 16 else s.rng.sample(range(1, n), 8)
        vs += [{"chunks": [k, n - k]} for k in pts]
        if n > 60:
            cases.append(procset_case(m, 1024, vs))
            continue
        cases.append(procset_case(m, 64, vs))
        cases.append(procset_case(m, min(64, n), [{"chunks": []}, {"chunks": [1] * n}]))     # buffer just holds the message
    # pairs of such messages and a message after them (path must be the root again)
    for _ in range(300 if tier == "quick" else 3000):
        a, c = s.rng.choice(msgs), s.rng.choice(msgs)
        whole = a + c + b"D\n"
        cases.append(procset_case(whole, 128, variants_for(s.rng, len(whole), False)))
    recs = s.execute(cases, "c08")
    rejected = s.validate(recs, "c08", chunk=500)
    s.report_rejected(rejected, "a payload byte was interpreted (as separator / terminator), a payload was not delivered verbatim, "
                                "or the units of a message with an embedded newline did not execute as without it")
    s.sample(recs[:1] + recs[-1:])
    s.cov["rule"] = ("quoted strings (both quote kinds) of length <= L over {a ; , : # other-quote SP NL e-acute} and blocks of length <= L "
                     "over {0,10,59,44,34,255} exhaustively, longer seeded ones (arbitrary UTF-8, all byte values), at argument index 1..3 and unit "
                     "index 1..2 of compound messages that continue with a relative header; run whole, process under every split point; "
                     "non-trivial = handler invoked with a payload; distinct by message")
    return s.finish(exhaustive=True)


CHECKS["C08"] = c08


# ----------------------------------------------------------------------- C11
# logical units of the `main` interface: (declared mnemonics, query, parameter tokens)
C11_UNITS = [
    (["MEASure", "VOLTage"], True, []),
    (["MEASure", "CURRent"], False, ["7"]),
    (["A", "P"], False, ["7", "'s t'", "#12ab"]),
    (["A", "B"], False, []),
    (["*X"], False, []),
    (["A", "E"], True, ['"q"']),
    (["A", "T"], False, ["ON"]),
    (["C"], True, []),
    (["A", "N"], False, ["#H1F"]),
    (["O", "D", "B"], False, []),
    (["A", "S"], False, ["'x'"]),
    (["MEAS", "ALL"], True, []),
    (["ROUTe", "Ee"], True, []),
    (["Xa", "Aa"], False, ["3"]),
    (["LONGmnemonicname", "SUBsystemlevel"], True, []),
    (["LONGmnemonicname", "Wide_identifier_1"], False, ["5"]),
]
WS = [bytes([x]) for x in list(range(0, 10)) + list(range(11, 33))]


def spell(m, form, case):
    if form == "short":
        m = "".join(ch for ch in m if not ch.islower())
    if case == "upper":
        return m.upper()
    if case == "lower":
        return m.lower()
    if case == "alt":
        return "".join(ch.upper() if i % 2 else ch.lower() for i, ch in enumerate(m))
    return m


def render_c11(units, style):
    """style: dict with gap strings (lists of bytes per gap kind and unit), forms, cases, eol"""
    out = b""
    for ui, (mns, q, args) in enumerate(units):
        g = lambda k: style.get((ui, k), b"")   # noqa: E731
        out += g("lead")
        if not mns[0].startswith("*") and (ui > 0 or style.get("abs0")):
            out += b":"          # units after the first are written absolute (so that each is valid); the first optionally
        forms = style.get((ui, "form"), "long")
        forms = [forms] * len(mns) if isinstance(forms, str) else forms        # one form per unit, or one per mnemonic
        out += ":".join(spell(m, f, style.get((ui, "case"), "upper")) for m, f in zip(mns, forms)).encode()
        if q:
            out += b"?"
        if args:
            out += style.get((ui, "hp"), b" ")
            for ai, a in enumerate(args):
                if ai:
                    out += g(("bc", ai)) + b"," + g(("ac", ai))
                out += a.encode()
        else:
            out += g("hp0")
        out += g("tail")
        out += b";" if ui + 1 < len(units) else style.get("eol", b"\n")
    return out


def c11_gaps(units):
    gaps = []
    for ui, (mns, q, args) in enumerate(units):
        gaps.append((ui, "lead"))
        gaps.append((ui, "tail"))
        if args:
            gaps.append((ui, "hp"))
            for ai in range(1, len(args)):
                gaps.append((ui, ("bc", ai)))
                gaps.append((ui, ("ac", ai)))
        else:
            gaps.append((ui, "hp0"))
    return gaps


def c11(tier):
    s = Session("C11", tier)
    C.build_harness()
    C.write_ifaces_module(s.wd)
    # scanner model: each of the 32 white-space bytes is insignificant in every gap phase
    sig = [65, 66, 58, 59, 44, 10, 63, 49, 39] + [0, 9, 11, 13, 32]
    s.model("MCScpiSyntax", ("MCScpiSyntaxParams", [
        ("IfaceName", '"main"'), ("Sigma", "{%s}" % ",".join(map(str, sig))),
        ("MaxLen", "4" if tier == "quick" else "5"), ("Prefix", "<<>>"), ("Starts", "<< <<>> >>"), ("EmitReplay", "FALSE")]),
        label="MCScpiSyntax(WsInsignificant, WsStartsGap over header/argument alphabet)", workers=8)
    cases = []
    bases = []
    for u in C11_UNITS:
        bases.append([u])
    for _ in range(12 if tier == "quick" else 60):
        bases.append([s.rng.choice(C11_UNITS) for _ in range(2)])
    for units in bases:
        base = render_c11(units, {})
        ins = [base]
        # every single gap x every white-space byte (and a doubled one)
        for gp in c11_gaps(units):
            for w in WS:
                ins.append(render_c11(units, {gp: w if gp[1] != "hp" else w}))
            ins.append(render_c11(units, {gp: b" \t" if gp[1] != "hp" else b"\t "}))
        # case and short/long form of every unit, CR LF
        for form in ("long", "short"):
            for case in ("upper", "lower", "alt"):
                ins.append(render_c11(units, {(ui, k): v for ui in range(len(units)) for k, v in (("form", form), ("case", case))}))
        # every mix of short and long mnemonics within one header
        for ui, (mns, _q, _a) in enumerate(units):
            for mix in itertools.product(("long", "short"), repeat=len(mns)):
                if len(set(mix)) > 1:
                    ins.append(render_c11(units, {(ui, "form"): list(mix), (ui, "case"): s.rng.choice(["upper", "lower", "alt"])}))
        ins.append(render_c11(units, {"eol": b"\r\n"}))
        ins.append(render_c11(units, {"abs0": True}))
        ins.append(render_c11(units, {"abs0": True, (0, "lead"): b" \t", "eol": b" \r\n"}))
        # seeded combinations of everything at once
        for _ in range(10 if tier == "quick" else 100):
            st = {}
            for gp in c11_gaps(units):
                k = s.rng.choice([0, 0, 1, 2])
                if gp[1] == "hp":
                    k = max(k, 1)
                st[gp] = b"".join(s.rng.choice(WS) for _ in range(k))
            for ui in range(len(units)):
                st[(ui, "form")] = [s.rng.choice(["long", "short"]) for _ in units[ui][0]]
                st[(ui, "case")] = s.rng.choice(["upper", "lower", "alt"])
            st["eol"] = s.rng.choice([b"\n", b"\r\n"])
            st["abs0"] = s.rng.random() < 0.3
            ins.append(render_c11(units, st))
        for k in range(0, len(ins), 40):
            cases.append({"kind": "runset", "iface": "main", "w": {"k": "rec"}, "ins": [b(base)] + [b(i) for i in ins[k:k + 40]]})
    recs = s.execute(cases, "c11")
    s.cov["variants_executed"] = sum(len(c["ins"]) - 1 for c in cases)
    rejected = s.validate(recs, "c11", chunk=40)
    s.report_rejected(rejected, "a permitted lexical variation (case, short/long form, white space, CR LF) changed the handlers, arguments, responses or errors")
    s.sample([{"kind": "runset", "ins": [C.show_bytes(i) for i in cases[0]["ins"][:6]]}] if cases else [])
    s.cov["distinct_nontrivial"] = s.cov["variants_executed"]
    s.cov["rule"] = ("base messages of 1-2 units over 11 logical units of the main interface (queries, 0-3 parameters of every data kind); variants: "
                     "each single gap (before unit, header-parameters, both sides of each comma, before ';'/terminator) x each of the 32 white-space "
                     "bytes, all case/short-long combinations, CR LF, and seeded combinations; every variant must be accepted by the spec and equal "
                     "the base on calls, arguments, errors and output; distinct_nontrivial counts executed variants")
    return s.finish(exhaustive=False)


CHECKS["C11"] = c11


# ----------------------------------------------------------------------- C12
CLASS_SIGMA = 'AB1:;,\n ?*#"\'+.EH!'      # 18 class representatives


def syntax_params(iface, sigma, maxlen, prefix, starts, emit):
    return ("MCScpiSyntaxParams", [
        ("IfaceName", '"%s"' % iface),
        ("Sigma", "{%s}" % ",".join(str(x if isinstance(x, int) else ord(x)) for x in sigma)),
        ("MaxLen", str(maxlen)), ("Prefix", T.tbytes(prefix) if prefix else "<<>>"),
        ("Starts", T.tseq(T.tseq(T.tbytes(m) for m in st) for st in starts)),
        ("EmitReplay", "TRUE" if emit else "FALSE")])


def norm_sig(sig):
    sig = dict(sig)
    sig["ch"] = sorted(sig["ch"])
    return sig


def parse_cases_from(item, iface, starts):
    """REPLAY line of MCScpiSyntax -> one `parse` case per start node with the allowed verdicts"""
    out = []
    for st, alts in zip(starts, item["exp"]):
        if not alts:
            continue          # quirk: verdict not compared
        exp = []
        for a in alts:
            a = dict(a)
            if a["v"] == "acc":
                a["node"] = norm_sig(a["node"])
                a["hdr"] = None if a["com"] else norm_sig(a["hdr"])
                a["suffix"] = True
            if a["v"] == "empty":
                a["suffix"] = True
            exp.append(a)
        out.append({"kind": "parse", "iface": iface, "start": [b(m) for m in st], "in": item["x"], "exp": exp})
    return out


def run_replay(s, cases, name):
    """spec -> code with exact expected verdicts (conf replay); returns (report, failures)"""
    cpath = os.path.join(s.wd, name + ".cases.ndjson")
    rpath = os.path.join(s.wd, name + ".report.json")
    C.write_ndjson(cpath, cases)
    rc = C.conf("replay", cpath, rpath)
    if rc == 3:
        hang = json.load(open(rpath + ".hang"))
        p = C.write_replay(s.prop, "hang-" + name, {"why": "the call did not return (watchdog)", "case": hang.get("case")})
        s.violations.append(("call did not return", p))
        return None, []
    rep = json.load(open(rpath))
    s.cov["evaluations"] += rep["total"]
    s.cov["traces_validated_against_impl"] += rep["ok"]
    s.cov["distinct_nontrivial"] = s.cov.get("distinct_nontrivial", 0) + rep["nontrivial"]
    return rep, rep["fails"]


def c12(tier):
    s = Session("C12", tier)
    C.build_harness()
    C.write_ifaces_module(s.wd)
    starts = [[], ["A"], ["A", "B"], ["MEAS"]]
    jobs = [("main", CLASS_SIGMA, 4 if tier == "quick" else 5, "", "header alphabet"),
            ("main", '1+-.Ee, \n;', 4 if tier == "quick" else 6, "A:P ", "decimal alphabet after 'A:P '"),
            ("main", '#HhBbQq1278aF, \n"', 3 if tier == "quick" else 5, "A:P ", "radix/block alphabet after 'A:P '"),
            ("main", [97, 34, 39, 10, 59, 44, 32, 35, 49, 255, 195], 4 if tier == "quick" else 5, "A:S ", "string/block alphabet incl. non-UTF-8 bytes after 'A:S '"),
            ("main", 'A1,\n \'', 5 if tier == "quick" else 7, "A:P 1,1,1,1,1,1,1,1,1", "parameter count around MAX_ARGS"),
            # every printable punctuation byte on its own (not only the class representative '!'): a byte that today is never valid
            # must stay so in every position, and a rejected newline-terminated input must have no accepted continuation
            ("main", "!$%&()*+-./<=>?@[\\]^_`{|}~:;,#'\"" + "1A\n ", 2 if tier == "quick" else 3, "A:P ", "all punctuation in parameter position"),
            ("main", "!$%&()*+-./<=>?@[\\]^_`{|}~:;,#'\"" + "1A\n ", 2 if tier == "quick" else 3, "", "all punctuation in header position"),
            ("main", '(@1,)\n a', 4 if tier == "quick" else 6, "A:P ", "parentheses after 'A:P '")]
    raw = os.path.join(s.wd, "c12.raw")
    for (iface, sigma, L, prefix, label) in jobs:
        s.model("MCScpiSyntax", syntax_params(iface, sigma, L, prefix, starts, True), raw_replay=raw,
                label="MCScpiSyntax(%s, |Sigma|=%d, L<=%d)" % (label, len(sigma), L), workers=8 if tier == "quick" else 14, heap="12g")
    # the implementation-shaped parser (transcription of parser.rs) refines the grammar; the pre-repair ordered choice does not
    pjobs = [(CLASS_SIGMA, 3, ""), ('a"\'\n;, #1', 3, "A:S "), ('1+-.Ee, \n;', 3, "A:P ")] if tier == "quick" else \
            [(CLASS_SIGMA, 4, ""), ('a"\'\n;, #1', 5, "A:S "), ('1+-.Ee, \n;', 5, "A:P "), ('#HhBbQq1278aF, \n"', 4, "A:P ")]
    for (sigma, L, prefix) in pjobs:
        nm, defs = syntax_params("main", sigma, L, prefix, starts[:3], False)
        s.model("MCScpiParseImpl", (nm, defs + [("LegacyChoice", "FALSE")]), workers=8 if tier == "quick" else 14,
                label="MCScpiParseImpl(|Sigma|=%d, L<=%d after %r)" % (len(sigma), L, prefix))
    nm, defs = syntax_params("main", 'a"\n;', 3, "A:S ", starts[:1], False)
    s.model("MCScpiParseImpl", (nm, defs + [("LegacyChoice", "TRUE")]), expect_violation="ImplRefines",
            label="MCScpiParseImpl legacy: ordered choice loses Incomplete")
    rpath = os.path.join(s.wd, "c12.report.json")
    rc = C.conf("parsex", raw, rpath, extra_args=["main", json.dumps([[b(m) for m in st] for st in starts])])
    if rc == 3:
        hang = json.load(open(rpath + ".hang"))
        s.violations.append(("parse did not return", C.write_replay("C12", "hang", {"why": "parse did not return", "case": hang.get("case")})))
        return s.finish()
    rep = json.load(open(rpath))
    s.cov["evaluations"] += rep["total"]
    s.cov["traces_validated_against_impl"] += rep["ok"]
    s.cov["distinct_nontrivial"] = rep["nontrivial"]
    s.cov["quirk_skipped"] = rep["skipped"]
    fails = rep["fails"]
    cases = [f["case"] for f in fails]
    for f in fails[:8]:
        c = f["case"]
        p = C.write_replay("C12", "parse-%d" % abs(hash(json.dumps(c["in"]) + json.dumps(c["start"])) % 10**9),
                           {"why": "parser::parse verdict differs from the verdict the unit scanner pins", "record": c, "observed": f["obs"],
                            "trace_module": "replay"})
        s.violations.append(("parse(%r) from %s: observed %s, allowed %s" % (
            C.show_bytes(c["in"]), ["".join(map(chr, m)) for m in c["start"]], json.dumps(f["obs"])[:200], json.dumps(c["exp"])[:200]), p))
    if not cases:
        # samples: a few of the enumerated lines
        with open(raw) as f:
            for k, line in enumerate(f):
                if k in (50, 5000, 50000):
                    it = json.loads(json.loads(line.strip()[len('<<"REPLAY", '):-2]))
                    cases.append({"in": it["x"], "start": [], "exp": it["exp"][0]})
    s.cov["samples"] = [{"in": C.show_bytes(c["in"]), "start": [C.show_bytes(m) for m in c["start"]], "allowed": c["exp"]} for c in cases[:2] + cases[-2:]]
    s.cov["rule"] = ("every byte string over each alphabet up to its length bound (TLC state graph of the byte-at-a-time scanner, one state per "
                     "string), from the root and three inner start nodes; parser::parse must return the pinned verdict class, consumed length, query "
                     "flag, terminator flag, parameter tokens, node and parent; accepted/rejected prefixes are covered with all their extensions "
                     "because the enumeration is prefix-closed; non-trivial = accepted unit")
    return s.finish(exhaustive=True)


CHECKS["C12"] = c12


# ----------------------------------------------------------------------- C05
def c05(tier):
    s = Session("C05", tier)
    C.build_harness()
    C.write_ifaces_module(s.wd)
    for (N, ml) in ([(3, 5)] if tier == "quick" else [(1, 6), (2, 6), (4, 7)]):
        s.model("MCScpiProcess", mc_proc_params("tiny", TINY_SIGMA, N, ml), workers=8,
                label="MCScpiProcess(N=%d,stream<=%d) OffsetsOk" % (N, ml), timeout=3000, heap="12g")
    # liveness: under weak fairness of its own steps process always comes back to a read (no loop without consuming input)
    for (sig, N, ml) in ([(TINY_SIGMA, 3, 5), ('A "\n', 4, 6)] if tier == "quick" else [(TINY_SIGMA, 4, 6), ('A:S "\n', 8, 8)]):
        s.model("MCScpiProcess", mc_proc_params("tiny", sig, N, ml, faults=False), cfg="MCScpiProcessLive.cfg", workers=8,
                label="MCScpiProcess liveness Progress (N=%d, stream<=%d, |Sigma|=%d)" % (N, ml, len(sig)), timeout=3000, heap="12g")
    s.model("MCScpiProcess", mc_proc_params("tiny", 'A "\n', 4, 5, legacy='"spin"', faults=False), cfg="MCScpiProcessLive.cfg", workers=4,
            expect_violation="Progress", label="MCScpiProcess mutant: terminator search resumes at the unfinished unit (spins)")
    cases = []
    writers = [{"k": "rec"}, {"k": "std"}] + [{"k": "heapless", "cap": c} for c in (0, 1, 2, 4, 8)]
    # (1) all strings over the class alphabet, tiny interface (A, B?, A:B, A:S)
    import itertools
    L = 3 if tier == "quick" else 4
    for n in range(1, L + 1):
        for t in itertools.product(CLASS_SIGMA, repeat=n):
            st = "".join(t)
            if tier == "quick":
                procs = [{"N": N, "chunks": ch} for N in (1, 2, 3, 4, 8) for ch in ([], [1] * n)] if "\n" in st else \
                        [{"N": N, "chunks": []} for N in (1, 2, 4)]
            else:
                procs = [{"N": N, "chunks": ch} for N in (1, 3, 8) for ch in ([], [1] * n)] if "\n" in st else [{"N": 2, "chunks": []}]
            cases.append({"kind": "multi", "iface": "tiny", "in": b(st), "writers": writers, "procs": procs})
    # (2) messages of the main interface with small writers and buffers (responses that do not fit)
    mw = [{"k": "rec"}, {"k": "std"}] + [{"k": "heapless", "cap": c} for c in range(0, 65)] + \
         [{"k": "rec", "cap": c} for c in (0, 1, 2, 3, 5, 9, 13, 21, 34, 63)]
    vocab = VOCAB_FAULT + ["MEAS:VOLT?", "C?", "*Q?", "A:H? #15hello", "A:E? 'abcdefghijklmnop'", "A:B:D?"]
    for _ in range(400 if tier == "quick" else 4000):
        msgs = random_history(s.rng, vocab, s.rng.randint(1, 4), maxunits=3)
        whole = "".join(msgs)
        procs = [{"N": N, "chunks": s.rng.choice([[], [1] * len(whole), random_chunks(s.rng, len(whole))])}
                 for N in s.rng.sample(range(1, 65), 8) + [64, 128]]
        cases.append({"kind": "multi", "iface": "main", "in": b(whole), "writers": mw, "procs": procs})
    for ty, lit in c03_literals(s.rng, "quick")[-1200:] + [(t, l) for t in ("u8", "f32", "f64", "i64", "bool", "str") for l in LONG_NUMS]:
        cases.append({"kind": "multi", "iface": "vals", "in": b("V:%s %s\n" % (TYNAME[ty], lit)), "writers": [{"k": "rec"}, {"k": "heapless", "cap": 64}],
                      "procs": [{"N": 64, "chunks": []}]})
    for n in ((63, 64, 65, 255, 256, 257, 1000, 4096) if tier == "quick" else (15, 16, 17, 63, 64, 65, 127, 128, 255, 256, 257, 300, 511, 512, 1000, 1023, 2048, 4095, 4096)):
        for msg in (b"A:K " + block(bytes((7 * k) % 251 for k in range(n))) + b"\n", b"A:S '" + b"s" * n + b"'\n", b"A:E? \"" + b"e" * n + b"\"\n"):
            cases.append({"kind": "multi", "iface": "main", "in": b(msg), "writers": mw[:4], "procs": [{"N": 1024, "chunks": []}] if n < 1000 else []})
    # (2b) the library's own SYSTem commands: error queue traffic incl. handler-raised errors with long, non-ASCII descriptions
    for i in range(150 if tier == "quick" else 1500):
        msgs = random_history(s.rng, QUEUE_VOCAB, s.rng.randint(2, 10), maxunits=3)
        whole = "".join(msgs)
        cases.append({"kind": "multi", "iface": "queue%d" % s.rng.choice([1, 2, 4, 10]), "in": b(whole),
                      "writers": [{"k": "rec"}, {"k": "std"}, {"k": "heapless", "cap": 8}, {"k": "heapless", "cap": 64}, {"k": "heapless", "cap": 512}],
                      "procs": [{"N": 64, "chunks": []}, {"N": 1024, "chunks": s.rng.choice([[], random_chunks(s.rng, len(whole))])}]})
    rdesc = json.load(open(os.path.join(C.SPEC, "ifaces", "resp.json")))
    for c in rdesc["cmds"]:
        sp = c["beh"].get("spec", {})
        for i in range(len(sp["vals"]) if sp.get("k") == "table" else 0):
            cases.append({"kind": "multi", "iface": "resp", "in": list(("%s %d\n" % (c["cmd"], i)).encode()),
                          "writers": [{"k": "rec"}, {"k": "heapless", "cap": 4}, {"k": "heapless", "cap": 16}, {"k": "heapless", "cap": 2048}],
                          "procs": [{"N": 64, "chunks": []}, {"N": 1024, "chunks": []}]})
    # (3) seeded random / mutated inputs over all 256 byte values
    for i in range(300 if tier == "quick" else 5000):
        n = s.rng.choice([1, 2, 5, 17, 64, 200, 1000, 4096 if tier == "thorough" else 600])
        if i % 2:
            data = bytes(s.rng.randrange(256) for _ in range(n))
        else:
            data = bytearray("".join(random_history(s.rng, vocab, n // 8 + 1)).encode("latin1"))
            for _ in range(len(data) // 6 + 1):
                k = s.rng.randrange(len(data))
                data[k] = s.rng.choice([s.rng.randrange(256), 10, 34, 39, 35, 59])
            data = bytes(data)
        procs = [{"N": N, "chunks": s.rng.choice([[], [1] * len(data), random_chunks(s.rng, len(data))])}
                 for N in s.rng.sample(range(1, 65), 4) + [64, 128, 1024]]
        cases.append({"kind": "multi", "iface": "main", "in": b(data), "writers": mw[:2] + s.rng.sample(mw[2:67], 5), "procs": procs})
    recs = s.execute(cases, "c05")
    s.cov["executions"] = sum(len(c["writers"]) + len(c["procs"]) for c in cases)
    rejected = s.validate(recs, "c05", chunk=250)
    s.report_rejected(rejected, "panic, a run that did not return a suffix of its input, an empty read buffer offered, an allocation, "
                                "or an outcome outside the specification", known_match=None)
    s.sample([{"in": C.show_bytes(c["in"]), "writers": len(c["writers"]), "procs": c["procs"][:2]} for c in cases[:1] + cases[-1:]])
    s.cov["distinct_nontrivial"] = max(len(s._distinct), 2)
    s.cov["rule"] = ("(1) every byte string over the 18-symbol class alphabet up to L through run with 7 writers (pass-through, std, heapless 0..8) and "
                     "through process with N in {1,2,3,4,8} whole and byte-wise; (2) seeded message sequences with 23 writer capacities 0..64 and 8 buffer "
                     "sizes; (3) seeded random and mutated inputs over all byte values up to 4096 bytes, N up to 1024; oracle = TraceScpi monitors "
                     "(no panic, returned, suffix, reads offered 1..N bytes, no allocation) plus the spec relation where pinned; a hang is caught by the "
                     "harness watchdog; coverage-guided fuzzing is not part of this technique family")
    return s.finish(exhaustive=True)


CHECKS["C05"] = c05


# ------------------------------------------------------------------ C01 / C14
TREE_NAMES = ["Ab", "AB", "aB", "ABcd", "A1b", "A_b", "Bc", "Cd"]


def tree_pool(tier):
    """declaration strings TLC draws sets from"""
    pool = []
    n1 = TREE_NAMES
    n2 = ["Ab", "AB", "ABcd"] if tier == "quick" else ["Ab", "AB", "aB", "ABcd", "Bc", "A1b"]
    for a in n1:
        pool += [a, a + "?"]
    for c in ["*Ab", "*CD"]:
        pool += [c, c + "?"]
    for a in n2:
        for c in n2:
            for fmt in ("%s:%s", "[%s]:%s", "%s:[%s]"):
                pool += [fmt % (a, c), fmt % (a, c) + "?"]
    for (a, c, d) in [("Cd", "Ab", "AB"), ("Cd", "Ab", "Bc"), ("Ab", "Bc", "Cd")]:
        for fmt in ("%s:[%s]:[%s]", "%s:%s:%s", "[%s]:%s:[%s]", "%s:[%s]:%s"):
            pool += [fmt % (a, c, d), fmt % (a, c, d) + "?"]
    pool += ["SYSTem:VERSion?", "SYST:VERS?", "SYSTem:ERRor?", "SYSTem:ERRor:COUNt?", "SYSTem:ERRor:NEXT?", "SYSTem:VERSion", "SYSTem:ERRor:ALL?",
             "SYSTem:[ERRor]:COUNt?"]
    seen, out = set(), []
    for p in pool:
        if p not in seen:
            seen.add(p)
            out.append(p)
    return out


SIB_DECLS = ["TEMPERATURECelsius", "SENSe:TEMPerature:THERMOCOUPLEjk?", "*CALIBRATENOWX", "*CALIBRATENOWXYZ?", "ABCDEFGHIJKLm", "BCDEFGHIJKLMNo", "CDEFGHIJKLMNOPq?",
             "A23456789012345678901234567890b:C23456789012345678901234567890123456789d", "DISPlay:[LAY]:TEXT", "Ab:[Bc]", "ABc:[C]?", "SYST:BEEP", "OUTPuts:COUNt?", "OUTP:ALL", "IN_SEL", "INPut:GAIN", "INIT", "IN1?", "IN_SEL?", "OUT_ENable", "OUTPut:STATe", "OUT2", "OUTA?", "MEASure?", "ME_as", "MEAN?",
             "Z_", "ZA", "Z1", "Z_A?", "SYS:IN_SEL", "SYS:INPut", "SYS:INIT?", "SYS:IN1", "SYS:OUT_ENable?", "SYS:OUTPut", "SYS:Z_", "SYS:ZA", "SYS:Z1?"]


FIXED_AMBIG = [("DISPlay:[LAY]:TEXT", "DISP:LAY:TEXT"), ("Ab:[Bc]", "A:B"), ("ABc:[C]?", "AB:C?"), ("SOURce:[LEVel]:AMPLitude", "SOUR:AMPL"),
               ("X:[Ab]:[AB]", "X:A:AB"), ("MEASure:VOLTage?", "MEAS:VOLTAGE?")]


def pool_decl_tla(cmd):
    return T.decl_record({"cmd": cmd, "args": [], "beh": {"k": "ok"}})


def tree_params(pool, maxdecls, mode, emit_sets, dedup=True, maxattrs=1):
    es = "{%s}" % ", ".join("<< %s, [std |-> %s, err |-> %s] >>" % (
        T.tseq(str(i) for i in ch), "TRUE" if st else "FALSE", "TRUE" if er else "FALSE") for (ch, st, er) in emit_sets)
    return ("MCScpiTreeParams", [
        ("Pool", "<<\n  " + ",\n  ".join(pool_decl_tla(c) for c in pool) + " >>"),
        ("MaxDecls", str(maxdecls)), ("MaxDeclsWithAttrs", str(maxattrs)), ("Mode", '"%s"' % mode),
        ("EmitSets", es), ("Dedup", "TRUE" if dedup else "FALSE")])


BUILTIN_FN_NAMES = ["system_version", "system_error_count", "system_error_next"]


def set_desc(name, pool, chosen, std, err):
    attrs = (["StandardCommands"] if std else []) + (["ErrorCommands"] if err else [])
    cmds = []
    for k, i in enumerate(chosen):
        cmd = pool[i - 1]
        beh = {"k": "const", "ty": "u8", "v": (k + 1) % 200} if cmd.endswith("?") else {"k": "ok"}
        c = {"cmd": cmd, "args": [], "beh": beh, "async": k % 2 == 0}
        if (std or err) and k < len(BUILTIN_FN_NAMES):
            # user handlers that carry the Rust names of the traits' built-in handlers: dispatch must stay by header, never by name
            c["fn"] = BUILTIN_FN_NAMES[(k + len(chosen)) % len(BUILTIN_FN_NAMES)]
            c["async"] = False
        cmds.append(c)
    return {"name": name, "attrs": attrs, "K": 4, "caps": [], "ns": [64], "cmds": cmds, "abs_only": True}


def cargo_json(pkg, cwd, release=True):
    env = dict(os.environ, CARGO_NET_OFFLINE="true")
    r = subprocess.run(["cargo", "build"] + (["--release"] if release else []) + ["--offline", "-p", pkg, "--message-format=json"], cwd=cwd, env=env,
                       stdout=subprocess.PIPE, stderr=subprocess.PIPE, text=True)
    msgs = []
    for line in r.stdout.splitlines():
        try:
            m = json.loads(line)
        except ValueError:
            continue
        if m.get("reason") == "compiler-message" and m["message"].get("level") == "error":
            spans = m["message"].get("spans") or []
            lines = [sp["line_start"] for sp in spans if sp.get("is_primary")] or [sp["line_start"] for sp in spans]
            msgs.append({"text": m["message"]["message"], "lines": lines, "pkg": m.get("package_id", ""),
                         "file": (spans[0]["file_name"] if spans else "")})
    return r.returncode, msgs, r.stderr[-2000:]


def module_ranges(src_modules):
    """[(name, text)] -> source text, {name: (first line, last line)}"""
    out, ranges, line = "", {}, 1
    for name, text in src_modules:
        n = text.count("\n")
        ranges[name] = (line, line + n - 1)
        out += text
        line += n
    return out, ranges


def owner(ranges, ln):
    for k, (a, z) in ranges.items():
        if a <= ln <= z:
            return k
    return None


def header_variants(rng, path, q, all_cases):
    hdr = b":".join(bytes(m) for m in path) + (b"?" if q else b"")
    forms = [hdr, hdr.lower(), bytes(c ^ 0x20 if (chr(c).isalpha() and i % 2) else c for i, c in enumerate(hdr))]
    return forms if all_cases else [rng.choice(forms)]


def tree_check(prop, tier):
    from vlib import geniface as G
    s = Session(prop, tier)
    C.build_harness()
    pool = tree_pool(tier)
    # phase 1: explore every set, classify
    sets = []
    md = 2
    s.model("MCScpiTree", tree_params(pool, md, "explore", []), on_line=sets.append, workers=10, timeout=3000,
            label="MCScpiTree explore(|Pool|=%d, decls<=%d)" % (len(pool), md), heap="12g")
    if tier == "thorough":
        sets3 = []
        s.model("MCScpiTree", tree_params(pool[:40], 3, "explore", []), on_line=sets3.append, workers=14, timeout=3000,
                label="MCScpiTree explore(|Pool|=40, decls<=3)", heap="16g")
        sets += [x for x in sets3 if len(x["chosen"]) == 3]
    # negative control: without de-duplication a declaration collides with itself ("[A]:[A]")
    s.model("MCScpiTree", tree_params(["Cd:[Ab]:[AB]", "Cd"], 2, "explore", [], dedup=False), expect_violation="TreeOk",
            label="MCScpiTree legacy: own expansions not de-duplicated")
    amb = [x for x in sets if x["ambiguous"]]
    una = [x for x in sets if not x["ambiguous"] and x["chosen"]]
    s.cov["sets_classified"] = len(sets)
    s.cov["ambiguous_sets"] = len(amb)
    s.rng.shuffle(amb)
    s.rng.shuffle(una)
    key = lambda x: (tuple(x["chosen"]), x["std"], x["err"])   # noqa: E731
    unakeys = {key(x) for x in una}
    K_amb = 40 if tier == "quick" else 400
    K_ctl = 60 if tier == "quick" else 1200
    # collisions with the built-in SYSTem commands first (they involve a handler the user never wrote)
    amb_attr = [x for x in amb if x["std"] or x["err"]]
    amb_s = (amb_attr[: K_amb // 3] + [x for x in amb if not (x["std"] or x["err"])])[:K_amb]
    # collision-free twins: flip the kind of the last declaration
    idx = {c: i + 1 for i, c in enumerate(pool)}
    twins = []
    for x in amb_s:
        last = pool[x["chosen"][-1] - 1]
        flipped = last[:-1] if last.endswith("?") else last + "?"
        ch = sorted(x["chosen"][:-1] + [idx[flipped]]) if flipped in idx else None
        if ch and (tuple(ch), x["std"], x["err"]) in unakeys and len(set(ch)) == len(ch):
            twins.append({"chosen": ch, "std": x["std"], "err": x["err"]})
    # always include singles with every attribute combination and the self-overlapping declarations
    musts = [x for x in una if len(x["chosen"]) == 1 and ("[" in pool[x["chosen"][0] - 1] or x["std"] or x["err"])]
    shared = [x for x in una if x.get("shared")]
    musts = musts[: K_ctl // 4] + shared[: K_ctl // 2]
    ctl, seen = [], set()
    for x in twins + musts + una:
        if key(x) not in seen and len(ctl) < K_ctl + len(twins):
            seen.add(key(x))
            ctl.append(x)
    # a fixed sibling-rich set: many children of one node whose names differ in '_', digits and letters at the same position
    pool2 = pool + SIB_DECLS
    sib = {"chosen": list(range(len(pool) + 1, len(pool2) + 1)), "std": False, "err": True}
    ctl.append(sib)
    # fixed ambiguous pairs whose collision hides behind a coincidence of letters (short form + next mnemonic = long form):
    # TLC must classify them as ambiguous, the macro must reject them in both declaration orders
    fixed_amb = []
    for a, c in FIXED_AMBIG:
        pool2 = pool2 + [a, c]
        fixed_amb.append({"chosen": [len(pool2) - 1, len(pool2)], "std": False, "err": False})
    pool = pool2
    # phase 2: test headers of the control sets
    emitted = []
    s.model("MCScpiTree", tree_params(pool, md if tier == "quick" else 3, "emit", [(x["chosen"], x["std"], x["err"]) for x in ctl + fixed_amb]),
            on_line=emitted.append, workers=10, timeout=3000, label="MCScpiTree emit(%d control sets)" % len(ctl), heap="12g")
    famb = [x for x in emitted if any(x["chosen"] == f["chosen"] for f in fixed_amb)]
    if len(famb) != len(fixed_amb) or not all(x["ambiguous"] for x in famb):
        raise C.ToolError("the specification does not classify the fixed ambiguous pairs as ambiguous")
    emitted = [x for x in emitted if x not in famb]
    if any(x["ambiguous"] for x in emitted):
        raise C.ToolError("a control set of the generator is ambiguous according to the specification: %s" % [
            [pool[i - 1] for i in x["chosen"]] for x in emitted if x["ambiguous"]][:2])
    amb_s = famb + amb_s
    # generate: control crate (must build) and ambiguous crate (every module must fail in the macro)
    descs = []
    for k, x in enumerate(emitted):
        x["name"] = "t%04d" % k
        descs.append(set_desc(x["name"], pool, x["chosen"], x["std"], x["err"]))
    wide = {"name": "wide0", "attrs": ["StandardCommands", "ErrorCommands"], "K": 4, "caps": [], "ns": [64], "cmds": [], "abs_only": True}
    for n in range(300):
        q = n % 3 == 0
        wide["cmds"].append({"cmd": "CHANnel%d:LEVel%s" % (n, "?" if q else ""), "args": [],
                             "beh": {"k": "const", "ty": "u16", "v": n} if q else {"k": "ok"}, "async": n % 2 == 0})
    for k, fnm in enumerate(BUILTIN_FN_NAMES):
        wide["cmds"][k * 3].update({"fn": fnm, "async": False})
    descs.append(wide)
    gen = os.path.join(C.HARNESS, "treegen", "src", "gen")
    os.makedirs(gen, exist_ok=True)
    os.makedirs(os.path.join(C.HARNESS, "ambig", "src"), exist_ok=True)
    if not os.path.exists(os.path.join(C.HARNESS, "ambig", "src", "lib.rs")):
        open(os.path.join(C.HARNESS, "ambig", "src", "lib.rs"), "w").write("")
    mods = [(d["name"], G.iface_module(d)) for d in descs]
    src, ranges = module_ranges([("_hdr", "// GENERATED\n")] + mods + [("_reg", G.registry(descs))])
    with open(os.path.join(gen, "mod.rs"), "w") as f:
        f.write(src)
    rc, msgs, err = cargo_json("treegen", C.HARNESS)
    built = rc == 0
    if not built:
        bad = {}
        for m in msgs:
            if m["file"].endswith("gen/mod.rs"):
                for ln in m["lines"]:
                    o = owner(ranges, ln)
                    if o and o.startswith("t"):
                        bad.setdefault(o, m["text"])
        if not bad:
            raise C.ToolError("generated tree crate does not build:\n" + "\n".join(m["text"] for m in msgs[:5]) + err)
        for name, text in sorted(bad.items())[:8]:
            d = next(d for d in descs if d["name"] == name)
            p = C.write_replay("C14", "nobuild-" + name, {"why": "a declaration set without a collision does not compile: " + text,
                                                           "decls": [c["cmd"] for c in d["cmds"]], "attrs": d["attrs"], "kind": "compile"})
            if prop == "C14":
                s.violations.append(("collision-free set %s rejected by the macro: %s" % ([c["cmd"] for c in d["cmds"]], text), p))
            else:
                s.notes.append("set %s does not compile (reported by C14): %s" % ([c["cmd"] for c in d["cmds"]], text))
        # drop the failing modules and rebuild so that the remaining sets are still exercised
        keep = [d for d in descs if d["name"] not in bad]
        mods = [(d["name"], G.iface_module(d)) for d in keep]
        src, ranges = module_ranges([("_hdr", "// GENERATED\n")] + mods + [("_reg", G.registry(keep))])
        with open(os.path.join(gen, "mod.rs"), "w") as f:
            f.write(src)
        rc, msgs, err = cargo_json("treegen", C.HARNESS)
        if rc != 0:
            raise C.ToolError("generated tree crate does not build after removing failing sets:\n" + err)
        descs = keep
    s.cov["control_sets_compiled"] = len(descs)
    names = {d["name"] for d in descs}
    if prop == "C14":
        amods = []
        for k, x in enumerate(amb_s):
            d = set_desc("a%04d" % k, pool, x["chosen"], x["std"], x["err"])
            amods.append((d["name"], G.plain_module(d), d))
            if len(x["chosen"]) > 1:
                d2 = set_desc("a%04dr" % k, pool, list(reversed(x["chosen"])), x["std"], x["err"])
                amods.append((d2["name"], G.plain_module(d2), d2))
        src, aranges = module_ranges([("_hdr", "// GENERATED: every module must be rejected by the macro\n")] + [(n, t) for n, t, _ in amods])
        os.makedirs(os.path.join(C.HARNESS, "ambig", "src"), exist_ok=True)
        with open(os.path.join(C.HARNESS, "ambig", "src", "lib.rs"), "w") as f:
            f.write(src)
        # both build profiles: the proc-macro crate is compiled with debug assertions in one and without in the other
        failed = None
        for release in (True, False):
            rc, msgs, err = cargo_json("ambig", C.HARNESS, release=release)
            fl = {}
            other = []
            for m in msgs:
                o = None
                for ln in m["lines"]:
                    o = o or owner(aranges, ln)
                if o and o.startswith("a"):
                    fl.setdefault(o, []).append(m["text"])
                else:
                    other.append(m["text"])
            if other and not fl:
                raise C.ToolError("ambiguous crate failed for another reason: %s %s" % (other[:3], err))
            failed = fl if failed is None else {k: v for k, v in failed.items() if k in fl}
        for n, t, d in amods:
            if n not in failed:
                p = C.write_replay("C14", "shadow-" + n, {"why": "two handlers share a spelling of the same kind, yet the set compiles (release or dev profile)",
                                                          "decls": [c["cmd"] for c in d["cmds"]], "attrs": d["attrs"], "kind": "compile"})
                s.violations.append(("ambiguous set %s was accepted by the macro (one handler is shadowed)" % [c["cmd"] for c in d["cmds"]], p))
        s.cov["ambiguous_sets_rejected_by_macro"] = len(failed)
        s.cov["twins_compiled"] = len([t for t in twins if True])
        s.cov["evaluations"] += len(amods)
        open(os.path.join(C.HARNESS, "ambig", "src", "lib.rs"), "w").write("")
    # run every test header through the real macro-generated dispatchers
    cases = []
    for x in emitted:
        if x["name"] not in names:
            continue
        tests = sorted(x["tests"])
        s.rng.shuffle(tests)
        # headers built only from declared short / long forms (all declared spellings are among them) always come first:
        # in a large set the near misses outnumber them by orders of magnitude
        forms = set()
        for i in x["chosen"]:
            for nm, _opt in T.parse_cmd(pool[i - 1])[0]:
                forms.add(nm.upper())
                forms.add("".join(ch for ch in nm if not ch.islower()).upper())
        spelled = set()
        for i in x["chosen"]:
            parts = T.parse_cmd(pool[i - 1])[0]
            alts = [[(nm.upper(),), ("".join(ch for ch in nm if not ch.islower()).upper(),)] + ([()] if opt else []) for nm, opt in parts]
            for combo in itertools.product(*alts):
                spelled.add(tuple(m for part in combo for m in part))
        up = lambda p: tuple(bytes(m).decode("latin1").upper() for m in p)   # noqa: E731
        tests.sort(key=lambda p: 0 if up(p) in spelled else 1 if all(m in forms for m in up(p)) else 2)
        decl_paths = set()
        lim = (100 if tier == "quick" else 250) if len(x["chosen"]) < 10 else (2500 if tier == "quick" else 100000)
        for p in tests[:lim]:
            for q in (False, True):
                for h in header_variants(s.rng, p, q, False):
                    cases.append({"kind": "run", "iface": x["name"], "in": b(h + b"\n"), "w": {"k": "rec"}})
    # all three case variants of every header of a few sets
    for x in emitted[:10]:
        if x["name"] in names:
            for p in sorted(x["tests"])[:200]:
                for q in (False, True):
                    for h in header_variants(s.rng, p, q, True)[1:]:
                        cases.append({"kind": "run", "iface": x["name"], "in": b(h + b"\n"), "w": {"k": "rec"}})
    for x in emitted[:60 if tier == "quick" else 600]:
        if x["name"] not in names:
            continue
        tests = sorted(x["tests"])
        if not tests:
            continue
        for _ in range(25):
            units = []
            for _ in range(s.rng.randint(2, 4)):
                p = s.rng.choice(tests)
                q = s.rng.random() < 0.4
                form = s.rng.choice(["abs", "full", "last", "last2"])
                mn = p if form in ("abs", "full") else p[-1:] if form == "last" else p[-2:]
                h = (b":" if form == "abs" else b"") + b":".join(bytes(m) for m in mn) + (b"?" if q else b"")
                units.append(h)
            cases.append({"kind": "run", "iface": x["name"], "in": b(b";".join(units) + b"\n"), "w": {"k": "rec"}})
    if "wide0" in names:
        for n in range(300):
            for h in ("CHAN%d:LEV" % n, "channel%d:level" % n, "CHANNEL%d:LEV" % n, "CHAN%d:LEVE" % n):
                for q in ("", "?"):
                    cases.append({"kind": "run", "iface": "wide0", "in": b(h + q + "\n"), "w": {"k": "rec"}})
        cases.append({"kind": "run", "iface": "wide0", "in": b("SYST:VERS?;ERR?;ERR:COUN?\n"), "w": {"k": "rec"}})
    cpath = os.path.join(s.wd, "tree.cases.ndjson")
    opath = os.path.join(s.wd, "tree.trace.ndjson")
    C.write_ndjson(cpath, cases)
    r = subprocess.run([os.path.join(C.HARNESS, "target", "release", "treeconf"), "exec", cpath, opath],
                       stdout=subprocess.PIPE, stderr=subprocess.PIPE, text=True)
    if r.returncode == 3:
        s.violations.append(("run did not return", C.write_replay(prop, "hang", json.load(open(opath + ".hang")))))
        return s.finish()
    if r.returncode != 0:
        raise C.ToolError("treeconf failed: " + r.stderr[-1500:])
    recs = C.read_ndjson(opath)
    s.cov["evaluations"] += len(recs)
    with open(os.path.join(s.wd, "Ifaces.tla"), "w") as f:
        f.write(T.ifaces_module(descs))
    rejected = s.validate(recs, "tree", chunk=2500)
    for rec in rejected:
        d = next(d for d in descs if d["name"] == rec["iface"])
        rec["decls"] = [c["cmd"] for c in d["cmds"]]
        rec["attrs"] = d["attrs"]
    if prop == "C01":
        s.report_rejected(rejected, "a header selected a handler it does not spell, or a spelled header was refused, or the report was not exactly one -113")
    elif rejected:
        s.notes.append("%d header(s) dispatched wrongly on control sets (reported by C01)" % len(rejected))
    s.sample([{"decls": [c["cmd"] for c in descs[0]["cmds"]], "attrs": descs[0]["attrs"],
               "header": C.show_bytes(recs[0]["in"]), "obs": recs[0]["obs"][:2]}] if recs and descs else [])
    if prop == "C14":
        s.cov["samples"] += [{"ambiguous": [pool[i - 1] for i in x["chosen"]]} for x in amb_s[:3]]
    s.cov["rule"] = ("declaration sets: every subset of <= 2 (thorough: 3 over a smaller pool) declarations from a pool with depth 1..3, optional parts "
                     "anywhere, short=long / non-prefix-short / digit / underscore names, common commands, command+query on one node, x attribute "
                     "combinations - all classified by TLC; a seeded sample of the collision-free ones (incl. every twin of a sampled ambiguous set) is "
                     "compiled through the real macro and every spelled header and near miss of each is run; the sampled ambiguous sets must each be "
                     "rejected by the macro; non-trivial = handler invoked or error reported; distinct by (set, header)")
    return s.finish(exhaustive=False)


CHECKS["C01"] = lambda tier: tree_check("C01", tier)
CHECKS["C14"] = lambda tier: tree_check("C14", tier)


# ----------------------------------------------------------------------- C09
QUEUE_VOCAB = ["C", "F", "G", "Z", "N 999", "N", "T 5", "SYST:ERR?", "SYST:ERR:NEXT?", "SYST:ERR:COUN?", "Q?", "H?", "SYST:VERS?",
               "FIRM:VERS?", "DIAG:COUN?", "DIAG:NEXT?", "E1", "E2", "E3", "E4", "E5", "SYST:ERR? 1", "SYST:ERR:COUN? 0", "SYST:ERR:NEXT? #H1", "SYST:VERS? 'x'", "SYST:ERR", "SYST:ERR:COUN"]
QUEUE_CODES = [-113, -104, -120, -224, -350, -115]


def c09(tier):
    s = Session("C09", tier)
    C.build_harness()
    C.write_ifaces_module(s.wd)
    # 1. the queue alone: bounded FIFO, overflow marker only at the back, older entries intact
    for K in ([1, 2, 3] if tier == "quick" else [1, 2, 3, 4]):
        s.model("MCErrorQueue", ("MCErrorQueueParams", [("K", str(K)), ("MaxOps", "7" if tier == "quick" else "9"), ("Variant", '"spec"')]),
                label="MCErrorQueue(K=%d)" % K, workers=4)
    s.model("MCErrorQueue", ("MCErrorQueueParams", [("K", "2"), ("MaxOps", "6"), ("Variant", '"dropoldest"')]),
            expect_violation=("OlderIntact", "OverflowAtBack"), label="MCErrorQueue mutant: overflow drops the oldest")
    s.model("MCErrorQueue", ("MCErrorQueueParams", [("K", "2"), ("MaxOps", "6"), ("Variant", '"dropnew"')]),
            expect_violation="OverflowAtBack", label="MCErrorQueue mutant: overflow drops the new error silently")
    # 1b. the same properties PROVED for arbitrary capacity K >= 1 and arbitrary error sets (TLAPS)
    pdir = os.path.join(s.wd, "proof")
    os.makedirs(pdir)
    import shutil
    shutil.copy(os.path.join(C.SPEC, "proofs", "ErrorQueueProof.tla"), pdir)
    r = subprocess.run(["timeout", "600", "tlapm", "--threads", "8", "--cleanfp", "ErrorQueueProof.tla"], cwd=pdir,
                       stdout=subprocess.PIPE, stderr=subprocess.STDOUT, text=True)
    import re as _re
    m = _re.search(r"All (\d+) obligations? proved", r.stdout)
    if not m:
        raise C.ToolError("TLAPS did not prove ErrorQueueProof:\n" + r.stdout[-1500:])
    s.cov["tlaps_obligations"] = int(m.group(1))
    s.cov["tlaps_discharged"] = int(m.group(1))
    s.cov["models"].append({"module": "ErrorQueueProof (TLAPS: Safety, PushKeepsOld, PushFullMarks, PushRoomAppends, PopIsFifo for arbitrary K)",
                            "states": 0, "transitions": 0, "wall_s": 0, "result": "all %s obligations proved" % m.group(1)})
    # 2. end to end: every grouping of faults / queries / commands into messages, implementation-shaped run refines
    hist = {}
    for K in ([1, 2] if tier == "quick" else [1, 2, 3, 4]):
        hist[K] = []
        mu, mm = (3, 1) if tier == "quick" else (2, 2)
        s.model("MCScpiRun", mc_run_params(QUEUE_VOCAB[:10] if tier == "quick" else QUEUE_VOCAB, mu, mm, iface="queue%d" % K),
                on_line=lambda it, K=K: hist[K].append(it["msgs"]), workers=10,
                label="MCScpiRun(queue%d, units<=%d, msgs<=%d)" % (K, mu, mm))
    cases = []
    for K, hs in hist.items():
        s.rng.shuffle(hs)
        for h in hs[:3000 if tier == "quick" else 30000]:
            whole = b"".join(bytes(m) for m in h)
            cases.append(run_case(whole, iface="queue%d" % K))
    # 3. seeded long sessions on every capacity incl. the documented 10: one run buffer, run per message, process
    for K in (1, 2, 3, 4, 10):
        for _ in range(12 if tier == "quick" else 300):
            msgs = random_history(s.rng, QUEUE_VOCAB + ["D !", "SYST:ERR?;:SYST:ERR:COUN?"], s.rng.randint(5, 40), maxunits=3, noise=s.rng.choice([0.0, 0.3]))
            whole = "".join(msgs)
            cases.append(run_case(whole, iface="queue%d" % K))
            cases.append(runs_case(msgs, iface="queue%d" % K))
            cases.append(proc_case(whole, 64, random_chunks(s.rng, len(whole)), iface="queue%d" % K))
    # 4. the ErrorQueue trait methods directly: all operation sequences to a depth, and seeded long ones
    import itertools
    ops_alpha = [{"op": "push", "n": -113}, {"op": "push", "n": -224}, {"op": "push", "n": 77, "custom": True}, {"op": "pop"}, {"op": "count"}]
    D = 5 if tier == "quick" else 7
    for K in (1, 2, 3, 4):
        for t in itertools.product(range(len(ops_alpha)), repeat=D):
            ops = []
            for i in t:
                ops += [ops_alpha[i], {"op": "count"}]
            cases.append({"kind": "queue", "K": K, "ops": ops + [{"op": "pop"}] * (K + 1)})
    for K in (1, 2, 3, 4, 10):
        for _ in range(20 if tier == "quick" else 200):
            ops = []
            for _ in range(s.rng.randint(20, 200)):
                r = s.rng.random()
                if r < 0.5:
                    ops.append({"op": "push", "n": s.rng.choice(QUEUE_CODES)} if s.rng.random() < 0.7 else
                               {"op": "push", "n": s.rng.randint(1, 999), "custom": True})
                elif r < 0.8:
                    ops.append({"op": "pop"})
                else:
                    ops.append({"op": "count"})
            cases.append({"kind": "queue", "K": K, "ops": ops})
    cases.append({"kind": "errtable"})      # number / description / Display / Response of all standard errors
    # soak: one queue instance lives through > 2^16 (thorough: > 2^17) stored errors, partly filled, drained in between
    soaks = []
    for K in ((3, 10) if tier == "quick" else (1, 2, 3, 4, 10)):
        # `stored` counts the errors that found room (a free-running counter in an implementation would count these)
        ops, stored, occ, target = [], 0, 0, (66600 if tier == "quick" else 140000)
        while stored < target:
            r = s.rng.random()
            if occ < K and r < 0.55:
                ops.append({"op": "push", "n": s.rng.randint(1, 30000), "custom": True})
                occ += 1
                stored += 1
            elif occ == K and r < 0.05:
                ops.append({"op": "push", "n": s.rng.randint(1, 30000), "custom": True})      # overflow: newest becomes -350
            elif r < 0.97:
                ops.append({"op": "pop"})
                occ = max(0, occ - 1)
            else:
                ops.append({"op": "count"})
        ops += [{"op": "pop"}] * (K + 1)
        soaks.append({"kind": "queue", "K": K, "ops": ops})
    recs = s.execute(cases, "c09")
    # a soak is executed on ONE queue object; its record is cut into lines of 2000 operations whose queue state the
    # trace specification carries from line to line (TraceScpi variable `carry`)
    srecs = s.execute(soaks, "c09soak")
    s.cov["soak_operations"] = sum(len(r["ops"]) for r in srecs)
    sfiles = []
    for r in srecs:
        lines = []
        for k in range(0, len(r["ops"]), 250):
            # (the description text of the custom errors is the same in every entry: dropped from the soak lines to keep them small)
            lines.append({"kind": "queue", "K": r["K"], "cont": k > 0, "ops": r["ops"][k:k + 250],
                          "obs": [{kk: v for kk, v in o.items() if kk != "txt"} for o in r["obs"][k:k + 250]]})
        pth = os.path.join(s.wd, "c09soak%d.ndjson" % r["K"])
        C.write_ndjson(pth, lines)
        sfiles.append((pth, lines))
    for res in C.validate_traces(s.wd, "TraceScpi", [p_ for p_, _ in sfiles], workers=8):
        lines = dict(sfiles)[res["file"]]
        if res["accepted"]:
            s.cov["traces_validated_against_impl"] += len(lines)
        else:
            bad = lines[res["reject_index"] - 1]
            pr = C.write_replay("C09", "soak-K%d-line%d" % (bad["K"], res["reject_index"]),
                                {"why": "long-lived queue: an entry was lost, duplicated or returned out of order", "K": bad["K"],
                                 "line": res["reject_index"], "operations_before": 250 * (res["reject_index"] - 1), "kind": "soak",
                                 "ops_tail": bad["ops"][:40], "obs_tail": bad["obs"][:40]})
            s.violations.append(("error queue of capacity %d misbehaved after about %d operations of one instance" % (bad["K"], 250 * (res["reject_index"] - 1)), pr))
    rejected = s.validate(recs, "c09", chunk=500)
    s.report_rejected(rejected, "errors were not returned oldest first, the count was wrong, the queue exceeded its capacity, or overflow did not "
                                "replace exactly the newest entry by -350")
    s.sample(recs[:1] + [r for r in recs if r["kind"] == "queue"][:1])
    nq = len([c for c in cases if c["kind"] == "queue"])
    s.cov["direct_queue_sequences"] = nq
    s.cov["distinct_nontrivial"] = len(s._distinct) + nq
    s.cov["rule"] = ("(a) every sequence of depth D over {push -113, push -224, push custom, pop, count} on StaticErrorQueue<K>, K=1..4, count observed after "
                     "every step and the queue drained at the end, plus seeded sequences of 20-200 operations incl. K=10; (b) every message history TLC "
                     "builds over faults/custom errors/NEXT?/COUNt?/commands for interfaces with queue capacity K, and seeded sessions of up to 60 messages "
                     "for K in {1,2,3,4,10} as one buffer, per message and through process; responses must decode to (number, description) of the oldest "
                     "entry / the count; non-trivial = at least one error or query")
    return s.finish(exhaustive=True)


CHECKS["C09"] = c09


# ----------------------------------------------------------------------- C03
INT_BOUNDS = {"u8": (0, 2**8 - 1), "i8": (-2**7, 2**7 - 1), "u16": (0, 2**16 - 1), "i16": (-2**15, 2**15 - 1),
              "u32": (0, 2**32 - 1), "i32": (-2**31, 2**31 - 1), "u64": (0, 2**64 - 1), "i64": (-2**63, 2**63 - 1),
              "usize": (0, 2**64 - 1), "isize": (-2**63, 2**63 - 1)}
TYNAME = {"u8": "U8", "i8": "I8", "u16": "U16", "i16": "I16", "u32": "U32", "i32": "I32", "u64": "U64", "i64": "I64",
          "usize": "US", "isize": "IS", "f32": "F32", "f64": "F64", "bool": "BOOL", "str": "STR", "blk": "BLK"}


def radix_lit(v, radix, rng=None):
    if radix == 10:
        return str(v)
    if v < 0:
        return None
    s = {16: "%X", 8: "%o", 2: "{0:b}"}[radix]
    body = (s % v) if radix != 2 else s.format(v)
    pre = {16: "#H", 8: "#Q", 2: "#B"}[radix]
    if rng and rng.random() < 0.3:
        pre, body = pre.lower(), body.lower()
    return pre + body


LONG_NUMS = ["1E2147483647", "1E2147483648", "1e-2147483649", "1E4294967296", "-2.5e+99999999999", "1e99999999999999999999", "1E-99999999999999999999",
             "0E99999999999", "1E0000000000000000000012", "1" + "0" * 40, "0." + "0" * 40 + "1", "0" * 40 + "7", "9" * 40 + ".5", "1." + "9" * 40 + "e-40",
             "#H" + "0" * 30 + "FF", "#B" + "1" * 70, "#Q" + "7" * 30, "#H" + "F" * 17, "1e9223372036854775808", "1E-9223372036854775809", "1e32001", "1e-32001"]


def c03_literals(rng, tier):
    """(type, literal text) pairs"""
    out = []
    for ty, (lo, hi) in INT_BOUNDS.items():
        vals = {lo - 1, lo, lo + 1, -1, 0, 1, hi - 1, hi, hi + 1, hi + 2, lo - 2, 2**63, -2**63 - 1, 2**64, 2**64 - 1, -(2**64) + 1, -(2**64) + 5,
                2**64 + 1, 10**20, -10**19, 2**31, 2**32, 2**15, 2**16, 2**7, 2**8, 255, 256, -129, 128}
        for k in (8, 16, 32, 63, 64):
            vals |= {2**k - 1, 2**k + 1, -(2**k) - 1, -(2**k) + 1}
        for v in sorted(vals):
            for radix in (10, 16, 8, 2):
                lit = radix_lit(v, radix, rng)
                if lit is not None:
                    out.append((ty, lit))
            # decimal spelling axes
            sv = str(abs(v))
            sign = "-" if v < 0 else ""
            for form in ("+" + sv if v >= 0 else None, sign + "0" + sv, sign + "00" + sv, sign + sv + ".", sign + sv + ".0", sign + sv + ".5",
                         sign + sv + "E0", sign + sv + "e+0", sign + sv + "0E-1", sign + sv + "5e-1", sign + sv[:-1] + "." + sv[-1] + "E1" if len(sv) > 1 else None,
                         sign + sv + ".00e0", sign + "." + sv + "e%d" % len(sv)):
                if form:
                    out.append((ty, form))
    # all short literals over a small alphabet, into a few types
    import itertools
    L = 3 if tier == "quick" else 4
    for n in range(1, L + 1):
        for t in itertools.product("0179F+-.E", repeat=n):
            lit = "".join(t)
            for ty in ("u8", "i8", "bool", "f32", "i64"):
                out.append((ty, lit))
            out.append(("u16", "#H" + lit))
    # numeric fields of unusual length: exponent digits beyond i32/i64, long mantissas, many leading zeros
    longs = LONG_NUMS
    for ty in TYNAME:
        for k in longs:
            out.append((ty, k))
    # every kind of data into every type
    kinds = ["INF", "inf", "INFINITY", "Infinity", "NAN", "nan", "NINF", "MIN", "DEF", "E5", "e", "x1", "ON", "off", "On", "TRUE", "false", "MAX", "1", "0", "01", "1.0", "+1", "2", "#H1", "#B0", "#Q7", "#HFF", "'1'", '"ON"', "''", "#11", "#10", "#213abcdefghijklm", "1e0", "-0", "0.0", "1E400", "1e-400"]
    for ty in TYNAME:
        for k in kinds:
            out.append((ty, k))
    # floats: boundaries, halfway cases, subnormals, seeded random decimal strings
    fl = ["9.9E+37", "9.9e37", "-9.9E+37", "9.91E+37", "9.91e37", "-9.91E37", "+99E36", "0.99E38", "991E35", "99" + "0" * 36, "9.9E37", "9.90000000000001E37",
          "9.89999999999999E+37", "3.4028235E38", "1.999.0"[:5], "1999.0", "65535", "65536", "4294967296", "18446744073709551616",
          "0", "-0", "0.0", "1", "-1", "0.1", "0.5", "1e23", "8.5e-320", "4.9e-324", "2.4703282292062327e-324", "2.4703282292062328e-324",
          "1.7976931348623157e308", "1.7976931348623158e308", "1.7976931348623159e308", "2e308", "9007199254740993", "9007199254740992.5", "16777217",
          "16777216.5", "3.4028235e38", "3.4028236e38", "3.40282357e38", "1.17549435e-38", "1e-45", "7e-46", "1.401298464324817e-45",
          "0.000000000000000000000000000000000000000000001", "123456789012345678901234567890", ".5", "5.", "+.5e+3", "1E5", "1e+5", "00001.50000",
          "1." + "0" * 40 + "1", "9" * 50, "0." + "0" * 60 + "1"]
    for _ in range(300 if tier == "quick" else 5000):
        ip = "".join(rng.choice("0123456789") for _ in range(rng.randint(0, 20)))
        fp = "".join(rng.choice("0123456789") for _ in range(rng.randint(0 if ip else 1, 20)))
        ex = rng.choice(["", "", "e%d" % rng.randint(-330, 310), "E%+d" % rng.randint(-50, 50)])
        fl.append(rng.choice(["", "-", "+"]) + ip + ("." + fp if fp or rng.random() < 0.2 else "") + ex)
    # literals just above / just below the midpoint of two adjacent floats (double rounding shows here)
    from fractions import Fraction
    from vlib import floats as F
    for ty in ("f32", "f64"):
        pbits, emin, emax, ebits = F.FMT[ty]
        for _ in range(60 if tier == "quick" else 1500):
            m = rng.getrandbits(pbits - 1) | (1 << (pbits - 1))
            e = rng.randint(emin - pbits + 1, emax - pbits + 1) if rng.random() < 0.5 else rng.randint(-40, 40)
            mid = (Fraction(2 * m + 1) * Fraction(2) ** e) / 2
            dec = F.frac_to_decimal(mid)
            if len(dec) > 400:
                continue
            for lit in (dec, dec + "000000001" if "." in dec else dec + ".000000001", F.frac_to_decimal(mid - Fraction(1, 10 ** (len(dec) + 3)))):
                out.append((ty, lit))
    for f in fl:
        if f.strip("+-") in ("", "."):
            continue
        out.append(("f64", f))
        out.append(("f32", f))
    return out


def float_definition_tie(s, tier):
    """MCScpiFloat: TLC evaluates ScpiFloat's definition of correct rounding on miniature formats and
    prints the table; the exact-rational evaluator used for f32/f64 must reproduce every row."""
    from fractions import Fraction
    from vlib import floats as F
    rows = []
    s.model("MCScpiFloat", ("MCScpiFloatParams", [("MaxM", "40" if tier == "quick" else "99"), ("MaxE", "2"),
            ("Formats", "{[p |-> 3, emin |-> -2, emax |-> 3], [p |-> 4, emin |-> -1, emax |-> 2]}")]),
            on_line=rows.append, label="MCScpiFloat(definition of correct rounding on p=3,4 formats)", workers=8)
    for x in rows:
        v = Fraction(x["m"]) * Fraction(10) ** x["e"]
        res = F.round_binary(v, x["p"], x["emin"], x["emax"])
        scale = Fraction(2) ** (x["p"] - 1 - x["emin"])
        ok = x["inf"] if res == ("inf",) else ((not x["inf"]) and Fraction(res[0]) * Fraction(2) ** res[1] * scale == x["r"])
        if not ok:
            raise C.ToolError("bin/vlib/floats.py disagrees with ScpiFloat's definition on %r (python: %r)" % (x, res))
    s.cov["float_definition_rows_replayed"] = len(rows)


def c03(tier):
    from vlib import floats as F
    s = Session("C03", tier)
    C.build_harness()
    C.write_ifaces_module(s.wd)
    float_definition_tie(s, tier)
    for (sig, L) in ([("0179+-.E", 4), ("#HhB017F", 4), ("#Q0178 ", 4)] if tier == "quick" else [("0179+-.Ee", 5), ("#HhBbQq0178F", 5), ("ONFTRUEaf", 4)]):
        s.model("MCScpiValues", ("MCScpiValuesParams", [("Sigma", "{%s}" % ",".join(str(ord(c)) for c in sig)), ("MaxLen", str(L))]),
                label="MCScpiValues(Sigma=%r, L<=%d)" % (sig, L), workers=8)
    F.selftest(s.rng, 300)
    lits = c03_literals(s.rng, tier)
    cases = []
    for ty, lit in lits:
        cases.append(run_case("V:%s %s\n" % (TYNAME[ty], lit), iface="vals"))
    # what follows the literal: digit runs of every length up to 40 (integer part, fraction, exponent) directly before each
    # kind of continuation - unit separator, separator + absolute header, white space, comma (one parameter too many), CR LF
    followers = [";V:U8 1\n", ";:V:U8 1\n", " ;V:U8 1\n", "\r\n", ";\n", ",1\n", "\t;:V:U8 1\n"]
    for n in range(1, 41 if tier == "quick" else 81):
        runs = [("u64", "0" * (n - 1) + "7"), ("f64", "0" * (n - 1) + "7"), ("f64", "1." + "0" * (n - 1) + "5"), ("f32", "7e" + "0" * (n - 1) + "2"),
                ("u8", "0" * (n - 1) + "9"), ("i64", "-" + "0" * (n - 1) + "3"), ("f64", "." + "1" * n), ("u32", "1" * min(n, 9) + "." + "0" * n)]
        for ty, lit in runs:
            for f in followers:
                cases.append(run_case("V:%s %s%s" % (TYNAME[ty], lit, f), iface="vals"))
    # parameter count matrix: 0..12 written against 0..10 declared; first failing parameter decides
    for k in range(0, 11):
        for w in range(0, 13):
            cases.append(run_case("AR:N%d %s\n" % (k, ",".join(str((i * 37) % 256) for i in range(w))), iface="vals"))
        if k:
            for bad in range(k):
                for badlit in ("256", "'x'", "-1", "1.5", "#HFFF"):
                    args = [str(i + 1) for i in range(k)]
                    args[bad] = badlit
                    cases.append(run_case("AR:N%d %s\n" % (k, ",".join(args)), iface="vals"))
    for m in ["MIX 1,ON,'s',#11x,-5", "MIX 256,ON,'s',#11x,-5", "MIX 1,2,'s',#11x,-5", "MIX 1,ON,s,#11x,-5", "MIX 1,ON,'s','x',-5",
              "MIX 1,ON,'s',#11x,-32769", "MIX 256,2,s,'x',99999", "MIX 1,ON,'s',#11x", "MIXQ? -128,1.5,18446744073709551615",
              "MIXQ? -129,1.5,1", "MIXQ? 1,x,1", "MIXQ? 1,1.5,18446744073709551616", "MIXQ? 1,1e999,7", "MIX 0,off,\"\",#10,0"]:
        cases.append(run_case(m + "\n", iface="vals"))
    # the conversions called directly (TryInto for Value and &Value), token kinds as the scanner classifies them
    import re as _re
    def _tok(lit):
        bl = lit.encode("latin1")
        if _re.fullmatch(rb"[A-Za-z][A-Za-z0-9_]*", bl):
            return {"k": "chr", "t": b(bl)}
        m = _re.fullmatch(rb"#([HhBbQq])([0-9A-Fa-f]+)", bl)
        if m:
            return {"k": {"h": "hex", "b": "bin", "q": "oct"}[m.group(1).decode().lower()], "t": b(m.group(2))}
        if _re.fullmatch(rb"[+-]?(\d+\.?\d*|\.\d+)([eE][+-]?\d+)?", bl):
            return {"k": "dec", "t": b(bl)}
        if len(bl) >= 2 and bl[0] == bl[-1] and bl[0] in b"'\"":
            return {"k": "str", "t": b(bl[1:-1])}
        return None
    nconv = 0
    for ty, lit in lits:
        tk = _tok(lit)
        if tk and (tk["k"] not in ("hex", "bin", "oct") or True):
            cases.append({"kind": "conv", "ty": ty, "tok": tk})
            nconv += 1
    s.cov["direct_conversions"] = nconv
    recs = s.execute(cases, "c03")
    rejected = s.validate(recs, "c03", chunk=4000)
    s.report_rejected(rejected, "a literal was delivered with a value it does not denote, a handler was invoked despite an unfit literal / wrong count, "
                                "or not exactly one error of the pinned class was reported")
    # float half: the delivered bits must be the correctly rounded value (exact rational arithmetic)
    nflt = bad = 0
    for r in recs:
        if r["kind"] == "conv":
            if r["ty"] in ("f32", "f64") and r["tok"]["k"] == "dec" and r["obs"].get("r") == "conv" and r["obs"]["byval"].get("ok"):
                nflt += 1
                want = F.dec_to_bits(bytes(r["tok"]["t"]), r["ty"])
                got = int(r["obs"]["byval"]["v"]["bits"], 16)
                if got != want and len(s.violations) < 8:
                    p = C.write_replay("C03", "conv-float-%d" % nflt, {"why": "TryInto delivered bits %x, correctly rounded is %x" % (got, want), "record": r})
                    s.violations.append(("TryInto<%s> of %r delivered %x, correctly rounded value is %x" % (r["ty"], bytes(r["tok"]["t"]), got, want), p))
            continue
        txt = bytes(r["in"])
        if not (txt.startswith(b"V:F32 ") or txt.startswith(b"V:F64 ")):
            continue
        ty = "f32" if txt.startswith(b"V:F32") else "f64"
        lit = txt[6:-1]
        calls = [e for e in r["obs"] if e["e"] == "call"]
        if not calls:
            continue
        try:
            want = F.dec_to_bits(lit, ty)
        except ValueError:
            continue
        nflt += 1
        got = int(calls[0]["args"][0]["bits"], 16)
        if got != want:
            bad += 1
            if len(s.violations) < 8:
                p = C.write_replay("C03", "float-%s-%d" % (ty, nflt), {"why": "decimal literal not correctly rounded: got %x want %x" % (got, want),
                                                                      "record": r, "float_check": {"ty": ty, "lit": lit.decode("latin1"), "want": "%x" % want}})
                s.violations.append(("%s literal %r delivered as bits %x, correctly rounded value is %x" % (ty, lit, got, want), p))
    s.cov["float_literals_checked_exactly"] = nflt
    s.sample(recs[:2] + recs[-1:])
    s.cov["rule"] = ("per integer type: values at and around MIN/MAX/0/2^k in decimal, #H, #Q, #B (upper and lower case) and 13 decimal spellings each "
                     "(sign, leading zeros, '.', '.0', '.5', exponents); every literal of <= L chars over {0,1,7,9,F,+,-,.,E}; 27 literals of every data kind into "
                     "all 15 parameter types; 0..12 parameters written against 0..10 declared and an unfit literal at every position; float literals incl. "
                     "halfway and subnormal cases and seeded random decimal strings, checked bit-exactly by exact rational arithmetic; non-trivial = handler "
                     "invoked or error reported; distinct by message")
    s.assumptions += ["float halves: TLC pins kind/arity/error class, the bit pattern is decided by bin/vlib/floats.py (exact rationals), which is "
                      "replayed against the TLA+ definition ScpiFloat on miniature formats"]
    return s.finish(exhaustive=False)


CHECKS["C03"] = c03


# ----------------------------------------------------------------------- C04
def c04(tier):
    from vlib import floats as F
    import struct
    s = Session("C04", tier)
    C.build_harness()
    C.write_ifaces_module(s.wd)
    float_definition_tie(s, tier)
    s.model("MCScpiResponse", ("MCScpiResponseParams", [("Legacy", "FALSE")]), label="MCScpiResponse(RoundTrip, Injective)", workers=8)
    s.model("MCScpiResponse", ("MCScpiResponseParams", [("Legacy", "TRUE")]), expect_violation="RoundTrip",
            label="MCScpiResponse legacy: embedded quotes not doubled")
    desc = json.load(open(os.path.join(C.SPEC, "ifaces", "resp.json")))
    writers = [{"k": "rec"}, {"k": "std"}, {"k": "heapless", "cap": 2048}, {"k": "heapless", "cap": 16}, {"k": "heapless", "cap": 4}]
    msgs = []
    for ty, (lo, hi) in INT_BOUNDS.items():
        for v in sorted(x for x in {lo, lo + 1, -1, 0, 1, 9, 10, 99, 100, hi - 1, hi} if lo <= x <= hi):
            msgs.append("R:%s? %d" % (TYNAME[ty], v))
    # integers with decimal structure: powers of ten and their neighbours, multiples with long zero runs, repdigits
    deci = set()
    for k in range(0, 20):
        for m_ in (1, 2, 4, 9, 12345):
            deci |= {m_ * 10 ** k, m_ * 10 ** k - 1, m_ * 10 ** k + 1}
        deci |= {int("9" * (k + 1)), int("1" + "0" * k + "1"), 3 * 10 ** 18 + 123456789, 10 ** 18 + 10 ** 9, 5 * 10 ** 9 + 123}
    for ty, (lo, hi) in INT_BOUNDS.items():
        for v in sorted(deci):
            for sv in (v, -v):
                if lo <= sv <= hi and (abs(sv) >= 10 ** 8 or ty in ("u8", "i8", "u16", "i16")):
                    msgs.append("R:%s? %d" % (TYNAME[ty], sv))
    for c in desc["cmds"]:
        sp = c["beh"].get("spec", {})
        if sp.get("k") == "table":
            for i in range(len(sp["vals"])):
                msgs.append("%s %d" % (c["cmd"], i))
    msgs += ["R:BOOL? ON", "R:BOOL? 0", "R:UNIT?", "R:CUST?", "R:FAIL?", "R:CMD 5", "R:CMD 999", "R:NOPE?", "R:U8? 256", "R:U8?", "R:SSTR? 1,2",
             "R:STR? 'a\"b'", "R:STR? \"it's\"", "R:STR? ''", "R:STR? 'é€'", "R:BLK? #10", "R:BLK? #15a\"\n;,", "R:BLK? #213" + "x" * 13]
    specials = [0x0, 0x8000000000000000, 0x1, 0x000FFFFFFFFFFFFF, 0x0010000000000000, 0x7FEFFFFFFFFFFFFF, 0x7FF0000000000000, 0xFFF0000000000000,
                0x7FF8000000000000, 0x7FF0000000000001, 0xFFF8000000000001, 0x3FF0000000000000, 0x3FB999999999999A, 0x4340000000000000,
                0x4340000000000001, 0x433FFFFFFFFFFFFF, 0x44B52D02C7E14AF6, 0x3E7AD7F29ABCAF48]
    for k in range(0, 64):
        specials += [1 << k, (1 << k) - 1]
    for _ in range(400 if tier == "quick" else 20000):
        specials.append(s.rng.getrandbits(64))
    import struct
    for _ in range(300 if tier == "quick" else 10000):
        f = struct.unpack(">f", struct.pack(">I", s.rng.getrandbits(32)))[0]
        if f == f and abs(f) != float("inf"):
            specials.append(struct.unpack(">Q", struct.pack(">d", f))[0])          # an f32 value widened to f64
    for t in ("0.1", "3.3", "-230.1", "0.001", "9999999.5", "1.0000009537"):
        f = struct.unpack(">f", struct.pack(">f", float(t)))[0]
        specials.append(struct.unpack(">Q", struct.pack(">d", f))[0])
    for _ in range(200 if tier == "quick" else 5000):
        k = s.rng.randint(1, 52)                                                   # only the top k mantissa bits are used
        specials.append((s.rng.getrandbits(1) << 63) | (s.rng.randint(1, 2046) << 52) | (s.rng.getrandbits(k) << (52 - k)))
    f64m = ["R:F64? %d" % (x & (2**64 - 1)) for x in specials]
    s32 = [0x0, 0x80000000, 0x1, 0x007FFFFF, 0x00800000, 0x7F7FFFFF, 0x7F800000, 0xFF800000, 0x7FC00000, 0x7F800001, 0x3F800000, 0x3DCCCCCD, 0x4B800000, 0x4B7FFFFF]
    for k in range(0, 32):
        s32 += [1 << k, (1 << k) - 1]
    for _ in range(400 if tier == "quick" else 20000):
        s32.append(s.rng.getrandbits(32))
    f32m = ["R:F32? %d" % x for x in s32]
    cases = []
    u8 = lambda t: list(t.encode("utf8"))   # noqa: E731
    for m in msgs + f64m + f32m:
        cases.append({"kind": "multi", "iface": "resp", "in": u8(m + "\n"), "writers": writers, "procs": [{"N": 1024, "chunks": []}]})
    # sequences: execution order, no output for failures, several responses in one message
    pool = msgs + f64m[:40]
    for _ in range(300 if tier == "quick" else 3000):
        k = s.rng.randint(2, 5)
        seq = [s.rng.choice(pool) for _ in range(k)]
        whole = ";:".join(seq) + "\n"
        cases.append({"kind": "multi", "iface": "resp", "in": u8(whole), "writers": writers[:3], "procs": [{"N": 1024, "chunks": []}]})
    # several messages delivered by ONE read, response sizes in every order (each fits the buffer on its own)
    for c in desc["cmds"]:
        sp = c["beh"].get("spec", {})
        if sp.get("k") == "table" and c["cmd"] in ("R:SBLK?", "R:SSTR?", "R:SL?"):
            n = len(sp["vals"])
            for i in range(n):
                for j in range(n):
                    whole = "%s %d\n%s %d\nR:U8? 7\n" % (c["cmd"], i, c["cmd"], j)
                    cases.append({"kind": "multi", "iface": "resp", "in": u8(whole), "writers": writers[:1],
                                  "procs": [{"N": 1024, "chunks": []}, {"N": 1024, "chunks": [len(whole) // 2, 1, 4096]}, {"N": 64, "chunks": []}]})
    recs = s.execute(cases, "c04")
    rejected = s.validate(recs, "c04", chunk=300)
    s.report_rejected(rejected, "a response is missing, malformed, out of order, does not decode to the returned value, differs between writers, "
                                "or output was produced for a command / failed query / undefined header")
    # float half: decode the response text exactly
    nflt = 0
    for r in recs:
        txt = bytes(r["in"])
        for ty, pre in (("f64", b"R:F64? "), ("f32", b"R:F32? ")):
            if txt.startswith(pre) and b";" not in txt:
                bits = int(txt[len(pre):-1])
                outs = b"".join(bytes(e["b"]) for e in r["obs"]["runs"][0] if e["e"] == "out")
                nflt += 1
                ok = outs.endswith(b"\n") and F.response_ok(outs[:-1], bits, ty)
                if not ok and len(s.violations) < 8:
                    p = C.write_replay("C04", "float-%s-%x" % (ty, bits), {"why": "float response does not decode to the returned value", "record": r})
                    s.violations.append(("%s with bits %x answered %r, which does not decode bit-exactly" % (ty, bits, outs[:60]), p))
    s.cov["float_responses_decoded_exactly"] = nflt
    s.sample([{"in": C.show_bytes(c["in"])} for c in cases[:2] + cases[-1:]])
    s.cov["rule"] = ("every integer type at its extremes and digit-count boundaries; every entry of the value tables of 14 table-driven queries (strings "
                     "incl. quotes/commas/newlines/non-ASCII in &str, heapless::String, String; character data; blocks of 0,1,9,10,11,99,100,101,999,1000 bytes; "
                     "tuples of 2-4; slices, heapless::Vec, slices of strings, nested; Error values); f32/f64 special values, powers of two and neighbours and "
                     "seeded random bit patterns, decoded with exact rational arithmetic; each through the pass-through writer, std Vec, heapless 2048/16/4 and "
                     "process::<1024>; seeded compound messages mixing queries, commands, failing and undefined units; non-trivial = produced a response or an error")
    s.assumptions += ["float responses: the TLA+ spec pins the syntax (a decimal real followed by NL, flush); the bit-exact decode is done by "
                      "bin/vlib/floats.py with exact rationals"]
    return s.finish(exhaustive=False)


CHECKS["C04"] = c04


# ----------------------------------------------------------------------- C13
def c13(tier):
    s = Session("C13", tier, level="exploration")
    C.build_harness()
    C.write_ifaces_module(s.wd)
    t0 = time.time()
    # build half: default features, no std, no allocator, through the macro
    nd = os.path.join(C.HARNESS, "nostd")
    env = dict(os.environ, CARGO_NET_OFFLINE="true")
    builds = []
    for cmd, cwd, what in [(["cargo", "build", "--offline", "-q"], nd, "no_std staticlib using the macro, default features, panic=abort, no allocator"),
                           (["cargo", "build", "--offline", "-q", "-p", "microscpi"], C.REPO, "cargo build -p microscpi (default features)")]:
        r = subprocess.run(cmd, cwd=cwd, env=env, stdout=subprocess.PIPE, stderr=subprocess.STDOUT, text=True)
        builds.append({"what": what, "ok": r.returncode == 0})
        if r.returncode != 0:
            errs = "\n".join(l for l in r.stdout.splitlines() if l.startswith("error"))[:600]
            p = C.write_replay("C13", "build-%d" % len(builds), {"why": what + " failed", "output": r.stdout[-3000:], "kind": "build"})
            s.violations.append(("%s does not build: %s" % (what, errs), p))
    s.cov["builds"] = builds
    # allocation half: a broad mix of the other checks' inputs through fixed-capacity writers and process;
    # TraceScpi's monitors require allocs = 0 on every run / session that does not use the std writer
    writers = [{"k": "rec"}, {"k": "heapless", "cap": 64}, {"k": "heapless", "cap": 8}, {"k": "heapless", "cap": 0}, {"k": "rec", "cap": 5}]
    cases = []
    vocab = VOCAB_FAULT + VOCAB_PATH + ["MEAS:VOLT?", "C?", "*Q?", "A:H? #15hello", "A:E? 'abc\"def'", "A:B:D?", "A:P 7,'s',#12ab", "A:S \"x\ny\"", "A:K #13a\nb", "BUF?", "BUF2 9", "K2?"]
    for _ in range(600 if tier == "quick" else 6000):
        msgs = random_history(s.rng, vocab, s.rng.randint(1, 6), maxunits=3)
        whole = "".join(msgs)
        procs = [{"N": N, "chunks": s.rng.choice([[], [1] * len(whole), random_chunks(s.rng, len(whole))])} for N in s.rng.sample(range(1, 33), 2) + [64]]
        cases.append({"kind": "multi", "iface": "main", "in": b(whole), "writers": writers, "procs": procs})
    lits = c03_literals(s.rng, "quick")
    s.rng.shuffle(lits)
    for ty, lit in lits[:1500 if tier == "quick" else 8000]:
        cases.append({"kind": "multi", "iface": "vals", "in": b("V:%s %s\n" % (TYNAME[ty], lit)), "writers": [{"k": "rec"}, {"k": "heapless", "cap": 64}], "procs": [{"N": 64, "chunks": []}]})
    desc = json.load(open(os.path.join(C.SPEC, "ifaces", "resp.json")))
    for c in desc["cmds"]:
        sp = c["beh"].get("spec", {})
        n = len(sp["vals"]) if sp.get("k") == "table" else 0
        for i in range(n):
            cases.append({"kind": "multi", "iface": "resp", "in": list(("%s %d\n" % (c["cmd"], i)).encode()), "writers": [{"k": "rec"}, {"k": "heapless", "cap": 2048}, {"k": "heapless", "cap": 16}],
                          "procs": [{"N": 1024, "chunks": []}, {"N": 64, "chunks": []}]})
    for _ in range(200 if tier == "quick" else 3000):
        cases.append({"kind": "multi", "iface": "resp", "in": list(("R:F64? %d;:R:F32? %d\n" % (s.rng.getrandbits(64), s.rng.getrandbits(32))).encode()),
                      "writers": [{"k": "rec"}, {"k": "heapless", "cap": 2048}], "procs": [{"N": 1024, "chunks": []}]})
    for _ in range(150 if tier == "quick" else 1500):
        msgs = random_history(s.rng, ["L:S 'ab'", "L:S \"x\ny\"", "L:B #13abc", "L:N 7", "L:Q? 'q'", "L:P 1,'s',#11x", "L:N 999", "L:Z", "L:S"], s.rng.randint(1, 5), maxunits=3)
        whole = "".join(msgs)
        cases.append({"kind": "multi", "iface": "life", "in": b(whole), "writers": [{"k": "rec"}, {"k": "heapless", "cap": 64}],
                      "procs": [{"N": 64, "chunks": random_chunks(s.rng, len(whole))}]})
    for K in (1, 4, 10):
        for _ in range(60 if tier == "quick" else 600):
            msgs = random_history(s.rng, QUEUE_VOCAB + ["D !"], s.rng.randint(3, 20), maxunits=3)
            whole = "".join(msgs)
            cases.append({"kind": "multi", "iface": "queue%d" % K, "in": b(whole), "writers": [{"k": "rec"}, {"k": "heapless", "cap": 64}],
                          "procs": [{"N": 64, "chunks": random_chunks(s.rng, len(whole))}, {"N": 16, "chunks": []}]})
    for i in range(200 if tier == "quick" else 3000):
        data = bytes(s.rng.randrange(256) for _ in range(s.rng.choice([3, 17, 64, 300])))
        cases.append({"kind": "multi", "iface": "main", "in": b(data), "writers": writers[:3], "procs": [{"N": 16, "chunks": []}, {"N": 64, "chunks": [1] * len(data)}]})
    recs = s.execute(cases, "c13")
    nobs = 0
    for r in recs:
        for o in r["obs"]["runs"] + r["obs"]["procs"]:
            nobs += 1
    s.cov["executions_with_allocation_counter"] = nobs
    rejected = s.validate(recs, "c13", chunk=300)
    s.report_rejected(rejected, "the library allocated on the heap while parsing / dispatching / formatting into a fixed-capacity buffer "
                                "(or another monitor of the trace specification failed)")
    s.sample([{"in": C.show_bytes(c["in"]), "iface": c["iface"], "writers": c["writers"][:2]} for c in cases[:2]])
    s.cov["distinct_nontrivial"] = max(len(s._distinct), 2)
    s.cov["rule"] = ("build half: a #![no_std] allocator-less staticlib instantiating an interface through the macro against microscpi with default features, and "
                     "cargo build -p microscpi; run-time half: a counting global allocator that counts only while library code runs (harness code and the "
                     "recording doubles pause it) over seeded message sequences, every literal class of C03, every response-table entry of C04, random float "
                     "bit patterns, error-queue sessions and random bytes, through run() into heapless::Vec / bounded pass-through writers and through "
                     "process::<N>; every record carries its allocation count and TraceScpi's monitors require 0; non-trivial = handler invoked, error or output")
    s.assumptions += ["the build half is decided by the compiler's exit status, not by TLA+ (see DESIGN.md section 5)",
                      "allocation counts exclude the std::Vec writer, whose write_fmt allocates by design (format!)"]
    return s.finish(exhaustive=False)


CHECKS["C13"] = c13
