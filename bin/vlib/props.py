"""The checks, one function per property."""
import json
import os
import subprocess
import time

from vlib import common as C
from vlib import tlagen as T
from vlib.session import Session

# unit texts over the `main` interface (spec/ifaces/main.json)
VOCAB_PATH = ["D", "B", "A:B", ":D", ":C", ":A:D", "*X", "Z", "A", "B:D?", "D !", "O:D:B", "D:B",
              "A:N 999", "A:N", "A:F"]
VOCAB_PATH_SMALL = ["D", "B", "A:B", ":C", ":A:D", "*X", "Z", "A", "B:D?", "D !", "D:B", "A:F"]


def b(s):
    return list(s.encode("latin1")) if isinstance(s, str) else list(s)


def run_case(data, iface="main", w=None):
    return {"kind": "run", "iface": iface, "in": b(data), "w": w or {"k": "rec"}}


def runs_case(msgs, iface="main"):
    return {"kind": "runs", "iface": iface, "msgs": [b(m) for m in msgs], "w": {"k": "rec"}}


def proc_case(stream, N, chunks, iface="main", fail_at=None, pend=None, susp=None):
    c = {"kind": "process", "iface": iface, "N": N, "stream": b(stream), "chunks": chunks}
    if fail_at is not None:
        c["fail_at"] = fail_at
    if pend:
        c["pend"] = pend
    if susp:
        c["susp"] = susp
    return c


def render_msg(units, trail=False):
    return ";".join(units) + (";" if trail and units else "") + "\n"


def random_history(rng, vocab, nmsgs, maxunits=4):
    msgs = []
    for _ in range(nmsgs):
        k = rng.choice([0, 1, 1, 2, 2, 3, maxunits])
        msgs.append(render_msg([rng.choice(vocab) for _ in range(k)], rng.random() < 0.2))
    return msgs


def random_chunks(rng, n):
    out = []
    left = n
    while left > 0:
        k = rng.choice([0, 1, 1, 2, 3, 5, 8, 13, left])
        out.append(k)
        left -= min(k, left)
    return out


def mc_run_params(vocab, maxunits, maxmsgs, legacy="", emit=True, iface="main"):
    return ("MCScpiRunParams", [
        ("IfaceName", '"%s"' % iface),
        ("Vocab", T.tseq(T.tbytes(v) for v in vocab)),
        ("MaxUnits", str(maxunits)), ("MaxMsgs", str(maxmsgs)),
        ("Legacy", "{%s}" % legacy), ("EmitReplay", "TRUE" if emit else "FALSE")])


def setup():
    t = C.build_harness()
    wd = C.workdir("setup")
    C.write_ifaces_module(wd)
    bad = 0
    for f in sorted(os.listdir(C.SPEC)):
        if f.endswith(".tla"):
            env = dict(os.environ, JAVA_TOOL_OPTIONS="-DTLA-Library=%s:%s" % (C.SPEC, wd))
            r = subprocess.run(["java", "-cp", C.TLC_CP, "tla2sany.SANY", os.path.join(C.SPEC, f)], cwd=wd,
                               stdout=subprocess.PIPE, stderr=subprocess.STDOUT, text=True, env=env)
            if "Semantic errors" in r.stdout or "Could not" in r.stdout or "Parse Error" in r.stdout or "Fatal" in r.stdout:
                print("SANY:", f, "FAILED")
                print(r.stdout[-800:])
                bad += 1
    C.cleanup(wd)
    print("setup: harness built in %.0fs, specification modules parsed, %d failures" % (t, bad))
    return 2 if bad else 0


# ----------------------------------------------------------------------- C02
def c02(tier):
    s = Session("C02", tier)
    C.build_harness()
    C.write_ifaces_module(s.wd)
    hist = []
    # 1. bounded exhaustive model: Refines / HistoryIndep / RootAtEnd, and all histories
    if tier == "quick":
        confs = [(VOCAB_PATH, 3, 1), (VOCAB_PATH_SMALL, 2, 2)]
    else:
        confs = [(VOCAB_PATH, 4, 1), (VOCAB_PATH, 2, 2), (VOCAB_PATH_SMALL[:9], 3, 2)]
    for (v, mu, mm) in confs:
        s.model("MCScpiRun", mc_run_params(v, mu, mm), on_line=lambda it: hist.append(it["msgs"]),
                label="MCScpiRun(|Vocab|=%d,units<=%d,msgs<=%d)" % (len(v), mu, mm))
    # negative controls: the model must see the three repaired path defects
    for leg, inv, (v, mu, mm) in [('"abs"', "Refines", (VOCAB_PATH_SMALL, 3, 1)),
                                  ('"empty"', "RootAtEnd", (VOCAB_PATH_SMALL, 2, 2))]:
        s.model("MCScpiRun", mc_run_params(v, mu, mm, legacy=leg, emit=False), expect_violation=inv,
                label="MCScpiRun legacy %s" % leg)
    # 2. spec -> code: every history in one run buffer; a seeded sample also one run call per
    #    message and through process (single read, byte-wise)
    budget = 40000 if tier == "quick" else 400000
    s.rng.shuffle(hist)
    cases = []
    for h in hist[:budget]:
        cases.append(run_case(b"".join(bytes(m) for m in h)))
    nsamp = 4000 if tier == "quick" else 40000
    for h in hist[:nsamp]:
        whole = b"".join(bytes(m) for m in h)
        cases.append(runs_case([bytes(m) for m in h]))
        cases.append(proc_case(whole, 64, []))
        cases.append(proc_case(whole, 32, [1] * len(whole)))
    # 3. code -> spec: seeded long sessions
    nlong = 60 if tier == "quick" else 600
    for _ in range(nlong):
        msgs = random_history(s.rng, VOCAB_PATH, s.rng.randint(5, 40))
        whole = "".join(msgs)
        cases.append(run_case(whole))
        cases.append(runs_case(msgs))
        cases.append(proc_case(whole, 64, random_chunks(s.rng, len(whole))))
    recs = s.execute(cases, "c02")
    rejected = s.validate(recs, "c02")
    s.report_rejected(rejected, "handler calls / errors / output differ from what the path rules of the specification allow")
    s.sample(recs[:2] + recs[-2:])
    s.cov["rule"] = ("histories enumerated exhaustively by TLC from a unit vocabulary (relative, absolute, common, undefined, "
                     "slot-empty, faulty units; trailing ';'; empty messages) and seeded long sessions; each executed as one run buffer, "
                     "one run per message and through process; a case is non-trivial if it invoked a handler, reported an error or wrote output; "
                     "distinct by input bytes")
    s.assumptions += ["TLC explores the model exhaustively only within the stated bounds",
                      "the recording doubles report handler calls, errors and writer calls faithfully"]
    return s.finish(exhaustive=True)


CHECKS = {"C02": c02}


def replay(path):
    rep = json.load(open(path))
    rec = rep.get("record") or rep.get("case")
    prop = os.path.basename(os.path.dirname(os.path.abspath(path)))
    s = Session(prop + "-replay", "quick")
    C.build_harness()
    C.write_ifaces_module(s.wd)
    case = {k: v for k, v in rec.items() if k != "obs"}
    recs = s.execute([case], "replay")
    if not recs:
        print("the call did not return")
        C.cleanup(s.wd)
        return 1
    from vlib.session import brief
    print("input:", C.show_bytes(case.get("in", case.get("stream", []))) if "msgs" not in case else [C.show_bytes(m) for m in case["msgs"]])
    for e in recs[0]["obs"] if isinstance(recs[0]["obs"], list) else [recs[0]["obs"]]:
        print("  ", brief(e))
    module = rep.get("trace_module", "TraceScpi")
    rej = s.validate(recs, "replay", module=module)
    C.cleanup(s.wd)
    if rej:
        print("REJECTED by the trace specification (%s): %s" % (module, rep.get("why", "")))
        return 1
    print("accepted by the trace specification (%s)" % module)
    return 0


def selftest():
    print("selftest: not implemented yet")
    return 0


# ----------------------------------------------------------------------- C07
VOCAB_FAULT = ["D", "A:B", ":C", "*X", "B:D?", "Z", "A", "D !", "A:N", "A:N 999", "A:N 'x'", "A:T 2", "A:F", "A:G?",
               "A:N 7", "A:E? 'q'"]
TINY_SIGMA = "AB:?;\n \"!"


def compositions(n):
    """all ways to split n bytes into a sequence of positive chunk sizes"""
    if n == 0:
        return [[]]
    out = []
    for mask in range(1 << (n - 1)):
        cur, parts = 1, []
        for i in range(n - 1):
            if mask >> i & 1:
                parts.append(cur)
                cur = 1
            else:
                cur += 1
        parts.append(cur)
        out.append(parts)
    return out


def variants_for(rng, n, full):
    """delivery schedules for a stream of n bytes"""
    vs = [{"chunks": []}, {"chunks": [1] * n}]
    if full and n <= 7:
        vs += [{"chunks": c} for c in compositions(n)[1:-1]]
    else:
        for _ in range(6):
            vs.append({"chunks": random_chunks(rng, n)})
    # empty reads interleaved, suspended futures
    c = random_chunks(rng, n)
    vs.append({"chunks": [x for k in c for x in (0, k)]})
    vs.append({"chunks": random_chunks(rng, n), "pend": [rng.randint(0, 2) for _ in range(5)],
               "susp": [rng.randint(0, 2) for _ in range(3)]})
    return vs


def msgs_fit(msgs, N):
    return all(len(m) <= N and m.count(b"\n" if isinstance(m, bytes) else "\n") == 1 for m in msgs)


def procset_case(stream, N, variants, iface="main", msgs=None):
    c = {"kind": "procset", "iface": iface, "N": N, "stream": b(stream), "variants": variants}
    if msgs is not None:
        c["msgs"] = [b(m) for m in msgs]
    return c


def mc_proc_params(iface, sigma, N, maxlen, legacy="", faults=True):
    return ("MCScpiProcessParams", [
        ("IfaceName", '"%s"' % iface), ("Sigma", "{%s}" % ",".join(str(ord(c)) for c in sigma)),
        ("N", str(N)), ("MaxLen", str(maxlen)), ("Legacy", "{%s}" % legacy),
        ("ModelFaults", "TRUE" if faults else "FALSE")])


def c07(tier):
    s = Session("C07", tier)
    C.build_harness()
    C.write_ifaces_module(s.wd)
    # 1. implementation-shaped process vs the byte-wise ideal, every chunk size and content at every read
    mcs = [(4, 6)] if tier == "quick" else [(3, 7), (4, 7), (5, 7), (6, 8)]
    for (N, ml) in mcs:
        s.model("MCScpiProcess", mc_proc_params("tiny", TINY_SIGMA, N, ml), workers=8 if tier == "quick" else 14,
                label="MCScpiProcess(N=%d,stream<=%d)" % (N, ml), timeout=3000, heap="16g")
    s.model("MCScpiProcess", mc_proc_params("tiny", TINY_SIGMA, 4, 6, legacy='"overflow"'), expect_violation="SameCarry",
            label="MCScpiProcess legacy overflow-before-compaction")
    cases = []
    # 2a. every stream over the tiny alphabet up to a length bound, every composition, N around the length
    import itertools
    L = 4 if tier == "quick" else 5
    for n in range(1, L + 1):
        for t in itertools.product(TINY_SIGMA, repeat=n):
            st = "".join(t)
            if "\n" not in st:
                continue
            for N in sorted({max(1, n - 1), n, n + 1, 16}):
                cases.append(procset_case(st, N, [{"chunks": c} for c in compositions(n)], iface="tiny"))
    # 2b. message streams over the main interface: path rules, faults, queries
    hist = []
    s.model("MCScpiRun", mc_run_params(VOCAB_FAULT, 2, 2, emit=True), on_line=lambda it: hist.append(it["msgs"]),
            label="MCScpiRun(fault vocabulary, units<=2, msgs<=2)")
    s.rng.shuffle(hist)
    nh = 2500 if tier == "quick" else 30000
    for h in hist[:nh]:
        msgs = [bytes(m) for m in h]
        whole = b"".join(msgs)
        n = len(whole)
        N = s.rng.choice([min(32, max(len(m) for m in msgs)), min(n, 32), min(n + 1, 32), 16, 32, 64])
        fit = N if msgs_fit(msgs, N) else None
        cases.append(procset_case(whole, N, variants_for(s.rng, n, False), msgs=msgs if fit else None))
    # 2c. seeded long streams, also arbitrary bytes
    nlong = 40 if tier == "quick" else 400
    for i in range(nlong):
        msgs = [m.encode("latin1") for m in random_history(s.rng, VOCAB_FAULT + VOCAB_PATH, s.rng.randint(10, 80))]
        whole = b"".join(msgs)
        if i % 4 == 3:   # corrupt: arbitrary bytes
            ba = bytearray(whole)
            for _ in range(len(ba) // 10 + 1):
                ba[s.rng.randrange(len(ba))] = s.rng.randrange(256)
            whole, msgs = bytes(ba), None
        N = s.rng.choice([8, 16, 47, 64, 128])
        ok = msgs is not None and msgs_fit(msgs, N)
        cases.append(procset_case(whole, N, variants_for(s.rng, len(whole), False), msgs=msgs if ok else None))
    recs = s.execute(cases, "c07")
    rejected = s.validate(recs, "c07", chunk=400 if tier == "quick" else 800)
    s.report_rejected(rejected, "process produced different handler calls / errors / response bytes for two delivery schedules of one stream, "
                                "or an outcome the stream semantics of the specification does not allow")
    s.sample(recs[:1] + recs[-1:])
    s.cov["delivery_schedules_executed"] = sum(len(c["variants"]) for c in cases)
    s.cov["rule"] = ("every byte stream over a 9-symbol alphabet up to the length bound under every composition into reads and four "
                     "buffer sizes; TLC-enumerated and seeded message streams under seeded schedules (single bytes, empty reads, exact "
                     "fill, suspended futures); non-trivial = invoked a handler, reported an error or wrote output; distinct by stream")
    s.assumptions += ["the scripted transport delivers exactly the scheduled chunks", "bounds as stated in coverage.models"]
    return s.finish(exhaustive=True)


CHECKS["C07"] = c07
