"""A check session: model-check, generate cases, execute them on the real code, validate
the recorded traces against the trace specification, report."""
import hashlib
import json
import os
import random
import time

from vlib import common as C


class Session:
    def __init__(self, prop, tier, level="model_checking"):
        self.prop = prop
        self.tier = tier
        self.level = level
        self.t0 = time.time()
        self.wd = C.workdir("%s-%s" % (prop, tier))
        self.rng = random.Random(C.seed() * 1000003 + sum(map(ord, prop)))
        self.cov = {"states": 0, "transitions": 0, "traces_validated_against_impl": 0, "samples": [],
                    "evaluations": 0, "distinct_nontrivial": 0, "free_lines": 0, "models": [],
                    "rule": ""}
        self.violations = []      # (description, replay path)
        self.known = []           # KNOWN-FINDING lines
        self.assumptions = []
        self._distinct = set()
        self.notes = []
        self.drift = []

    # ---------------------------------------------------------------- models
    def model(self, module, params=None, cfg=None, workers=8, timeout=1500, expect_violation=None,
              simulate=None, on_line=None, heap="6g", label=None, raw_replay=None):
        """Run one TLC model.  params: (module name, [(name, tla text)]).  Returns TLC result.
        A counterexample in a model that must hold is a machinery failure (ToolError) - a
        model is never reported as a violation of the code."""
        if params:
            with open(os.path.join(self.wd, params[0] + ".tla"), "w") as f:
                f.write(C.tla_params(params[0], params[1]))
        for f in (module + ".tla", (cfg or module + ".cfg")):
            p = os.path.join(self.wd, f)
            if os.path.exists(p):
                os.remove(p)
        r = C.run_tlc(self.wd, module, cfg=cfg, workers=workers, timeout=timeout, simulate=simulate,
                      on_line=on_line, heap=heap, raw_replay=raw_replay, coverage=False)   # TLC -coverage runs out of heap on these specs (deep recursion): not used
        entry = {"module": label or module, "states": r["distinct"], "transitions": r["states"],
                 "wall_s": round(r["wall"], 1), "result": "ok" if r["ok"] else ("violated:%s" % r["violated"])}
        if r.get("actions"):
            entry["actions"] = r["actions"]      # TLC -coverage: per action distinct states found : times taken
        if expect_violation:
            # which property TLC reports first can depend on worker scheduling: the control has served its
            # purpose when the mutated / legacy model violates any of its properties
            if not r["violated"]:
                raise C.ToolError("negative control %s: expected invariant %s to fail, got %s\n%s" % (
                    label or module, expect_violation, r["violated"], r["out"][-1500:]))
            entry["result"] = "negative control: %s violated as required" % r["violated"]
        else:
            if r["timeout"]:
                raise C.ToolError("model %s timed out" % module)
            if not r["ok"]:
                raise C.ToolError("model %s does not satisfy its invariants (%s) - machinery bug:\n%s" % (
                    module, r["violated"], r["out"][-3000:]))
            self.cov["states"] += r["distinct"]
            self.cov["transitions"] += r["states"]
        self.cov["models"].append(entry)
        return r

    # ----------------------------------------------------------------- cases
    def execute(self, cases, name, build=None):
        """Run cases on the real code; returns list of records (case + obs).  build="defmt": the harness linked against
        the library with its optional defmt feature (the cases carry the field so that a replay uses the same build)."""
        cpath = os.path.join(self.wd, name + ".cases.ndjson")
        opath = os.path.join(self.wd, name + ".trace.ndjson")
        if build:
            cases = [dict(c, build=build) for c in cases]
        C.write_ndjson(cpath, cases)
        rc = C.conf("exec", cpath, opath, build=build)
        if rc == 3:
            hang = json.load(open(opath + ".hang"))
            p = C.write_replay(self.prop, "hang-" + name, {"why": "the call did not return (watchdog)", "case": hang.get("case")})
            self.violations.append(("call did not return", p))
            return []
        recs = C.read_ndjson(opath)
        self.cov["evaluations"] += len(recs)
        return recs

    def validate(self, recs, name, module="TraceScpi", chunk=1500, workers=8, max_reject=6):
        """Trace validation of recorded lines; every line is examined even after a rejection."""
        # one TLC start costs seconds (all interface constants are evaluated): not more files than parallel workers
        nw = workers if self.tier == "quick" else 14
        chunk = max(chunk, -(-len(recs) // nw)) if chunk < 10 ** 8 else chunk
        # heavy lines (long sessions) tend to sit together in the generation order: spread them over the files
        if chunk < 10 ** 8:
            recs = list(recs)
            random.Random(12345).shuffle(recs)
        files = []
        for k in range(0, len(recs), chunk):
            p = os.path.join(self.wd, "%s.%04d.ndjson" % (name, k // chunk))
            C.write_ndjson(p, recs[k:k + chunk])
            files.append((p, recs[k:k + chunk]))
        todo = list(files)
        rejected = []
        rounds = 0
        while todo and rounds < max_reject:
            rounds += 1
            res = C.validate_traces(self.wd, module, [p for p, _ in todo], workers=workers if self.tier == "quick" else 14,
                                    timeout=1800 if self.tier == "quick" else 4 * 3600)
            bypath = dict(todo)
            todo = []
            for r in res:
                lines = bypath[r["file"]]
                for d in r.get("drift", []):
                    if lines[d - 1] not in self.drift:
                        self.drift.append(lines[d - 1])
                self.cov["states"] += r["states"]
                self.cov["transitions"] += r["states"]
                if r["accepted"]:
                    self.cov["traces_validated_against_impl"] += len(lines)
                    if r["stats"]:
                        self.cov["free_lines"] += r["stats"][-1]
                        if len(r["stats"]) > 2:
                            self.cov["impl_model_sessions_explained"] = self.cov.get("impl_model_sessions_explained", 0) + r["stats"][1]
                    continue
                d = r["reject_index"]
                self.cov["traces_validated_against_impl"] += d - 1
                bad = lines[d - 1]
                rejected.append(bad)
                rest = lines[d:]
                if rest:
                    p2 = r["file"] + ".r"
                    C.write_ndjson(p2, rest)
                    todo.append((p2, rest))
        for rec in recs:
            key = hashlib.md5(json.dumps(rec.get("in", rec.get("stream", rec.get("msgs"))), sort_keys=True).encode()).hexdigest()
            obs = rec.get("obs")
            if isinstance(obs, dict):
                obs = [e for k in ("v", "runs", "procs", "f") for v in obs.get(k, []) for e in (v if isinstance(v, list) else [v])]
            elif isinstance(obs, list) and obs and isinstance(obs[0], list):
                obs = [e for v in obs for e in v]
            if isinstance(obs, list) and any(e.get("e") in ("call", "err", "out", "write") for e in obs):
                self._distinct.add(key)
        return rejected

    def report_rejected(self, rejected, why, known_match=None):
        for k, rec in enumerate(rejected):
            kf = known_match(rec) if known_match else None
            if kf:
                self.known.append("KNOWN-FINDING: property=%s %s" % (self.prop, kf))
                continue
            if len(self.violations) >= 8:
                break
            h = hashlib.md5(json.dumps(rec, sort_keys=True).encode()).hexdigest()[:10]
            p = C.write_replay(self.prop, "%s-%s" % (rec.get("kind", "case"), h), {"why": why, "record": rec})
            self.violations.append((why, p))

    def sample(self, recs, n=3):
        for r in recs[:n]:
            s = dict(r)
            for k in ("in", "stream"):
                if k in s:
                    s[k] = C.show_bytes(s[k])
            if "msgs" in s:
                s["msgs"] = [C.show_bytes(m) for m in s["msgs"]]
            if isinstance(s.get("obs"), list):
                s["obs"] = [brief(e) for e in s["obs"]]
            elif isinstance(s.get("obs"), dict):
                s["obs"] = {"v": [[brief(e) for e in v] for v in s["obs"].get("v", [])[:2]]}
            self.cov["samples"].append(s)

    # ---------------------------------------------------------------- finish
    def finish(self, exhaustive=False):
        self.cov["distinct_nontrivial"] = max(self.cov.get("distinct_nontrivial", 0), len(self._distinct))
        self.cov["exhaustive"] = exhaustive
        if not self.cov["samples"]:
            self.cov["samples"] = ["(no sample recorded)"]
        if self.drift:
            # the implementation-shaped model (ScpiProcessImpl) pins more than the properties: a session it does not explain
            # is a note - what TLC established on MCScpiProcess no longer transfers to the code - never a violation
            self.cov["impl_model_drift"] = len(self.drift)
            for rec in self.drift[:3]:
                p = C.write_replay(self.prop, "drift-%s" % hashlib.md5(json.dumps(rec, sort_keys=True).encode()).hexdigest()[:10],
                                   {"why": "implementation-shaped model drift (not a property violation)", "record": rec})
                self.notes.append("IMPL-DRIFT: a process session is not explained step by step by spec/ScpiProcessImpl.tla: " + p)
        C.write_evidence(self.prop, self.tier, self.level, self.cov, time.time() - self.t0,
                         len(self.violations), self.assumptions)
        C.cleanup(self.wd)
        for k in sorted(set(self.known)):
            print(k)
        for why, p in self.violations:
            print("VIOLATION property=%s replay=%s" % (self.prop, p))
            print("  " + why)
        for n in self.notes:
            print("note: " + n)
        print("%s %s: %d model states, %d lines validated against the implementation (%d on free territory), %d violations, %.0fs" % (
            self.prop, self.tier, self.cov["states"], self.cov["traces_validated_against_impl"],
            self.cov["free_lines"], len(self.violations), time.time() - self.t0))
        return 1 if self.violations else 0


def brief(e):
    e = dict(e)
    for k in ("b", "txt"):
        if k in e and isinstance(e[k], list):
            e[k] = C.show_bytes(e[k])
    if "args" in e:
        e["args"] = [brief(a) for a in e["args"]]
    if "d" in e and isinstance(e["d"], list):
        e["d"] = C.show_bytes(e["d"])
    return e
