"""Interface descriptions (data) -> Rust source that goes through the real
#[microscpi::interface] macro.  The same descriptions are rendered to TLA+ by tlagen.py,
so the specification and the code under test see one declaration set."""
import json

INT_TYPES = ["u8", "i8", "u16", "i16", "u32", "i32", "u64", "i64", "usize", "isize"]


def rust_str(s):
    out = ['"']
    for ch in s:
        o = ord(ch)
        if ch == '"':
            out.append('\\"')
        elif ch == '\\':
            out.append('\\\\')
        elif 32 <= o < 127:
            out.append(ch)
        else:
            out.append('\\u{%x}' % o)
    out.append('"')
    return ''.join(out)


def rust_bytes(bs):
    return '&[' + ', '.join('%du8' % b for b in bs) + ']'


def arg_rust_type(t):
    if t in INT_TYPES or t in ("f32", "f64", "bool"):
        return t
    if t == "str":
        return "&'a str"
    if t == "blk":
        return "&'a [u8]"
    raise ValueError(t)


def const_expr(ty, v):
    """(rust return type, rust expression) of a constant response value"""
    if ty in INT_TYPES:
        return ty, "%s%s" % (v, ty)
    if ty == "bool":
        return "bool", "true" if v else "false"
    if ty == "str":
        return "&'static str", rust_str(v)
    if ty == "strb":  # string given as utf-8 bytes
        return "&'static str", "unsafe { core::str::from_utf8_unchecked(%s) }" % rust_bytes(v)
    if ty == "chr":
        return "scpi::Characters<'static>", "scpi::Characters(%s)" % rust_str(v)
    if ty == "blk":
        return "scpi::Arbitrary<'static>", "scpi::Arbitrary(%s)" % rust_bytes(v)
    if ty == "f64":
        return "f64", "f64::from_bits(0x%s)" % v
    if ty == "f32":
        return "f32", "f32::from_bits(0x%s)" % v
    raise ValueError(ty)


def handler(idx, c, plain=False):
    args = c.get("args", [])
    beh = c.get("beh", {"k": "ok"})
    is_async = c.get("async", True)
    params = ''.join(", a%d: %s" % (i, arg_rust_type(t)) for i, t in enumerate(args))
    k = beh["k"]
    if k == "ok":
        rty, body = "()", "Ok(())"
    elif k == "const":
        rty, e = const_expr(beh["ty"], beh["v"])
        body = "Ok(%s)" % e
    elif k == "echo":
        t = args[beh["i"]]
        if t == "str":
            rty = "&'a str"
            body = "Ok(a%d)" % beh["i"]
        elif t == "blk":
            rty = "scpi::Arbitrary<'a>"
            body = "Ok(scpi::Arbitrary(a%d))" % beh["i"]
        else:
            rty = t
            body = "Ok(a%d)" % beh["i"]
    elif k == "fail":
        rty = beh.get("rty", "u8" if c["cmd"].endswith("?") else "()")
        body = "Err(Error::Custom(%d, %s))" % (beh["n"], rust_str(beh["text"]))
    elif k == "failstd":
        rty = beh.get("rty", "u8" if c["cmd"].endswith("?") else "()")
        body = "Err(Error::%s)" % beh["name"]
    elif k == "table":
        # response table lookup by index argument 0 (usize)
        rty = beh["rty"]
        body = "Ok(%s[a0].clone())" % beh["table"]
    elif k == "raw":
        rty, body = beh["rty"], beh["body"]
    else:
        raise ValueError(k)
    logargs = ', '.join("a%d.j()" % i for i in range(len(args)))
    lt = "<'a>" if any(t in ("str", "blk") for t in args) else ""
    if is_async:
        sus = "rec::susp().await; "
        kw = "async "
    else:
        sus = ""
        kw = ""
    if plain:
        return ('        #[scpi(cmd = %s)]\n'
                '        pub %sfn h%d%s(&mut self%s) -> Result<%s, Error> { %s }\n') % (
                    rust_str(c["cmd"]), kw, idx, lt, params, rty, body)
    fname = c.get("fn", "h%d" % idx)
    return ('        #[scpi(cmd = %s)]\n'
            '        pub %sfn %s%s(&mut self%s) -> Result<%s, Error> {\n'
            '            rec::call(%d, rec::args_of(|| vec![%s])); %s%s\n'
            '        }\n') % (rust_str(c["cmd"]), kw, fname, lt, params, rty, idx, logargs, sus, body)


def plain_module(d):
    """A module with only the struct, the error handler and the #[interface] impl block
    (no harness code): for declaration sets whose compile outcome is the observation."""
    attrs = d.get("attrs", [])
    out = ["#[allow(unused_imports, dead_code)]", "pub mod %s {" % d["name"],
           "    use microscpi::{self as scpi, Error};"]
    if "ErrorCommands" in attrs:
        out.append("    pub struct I { pub q: scpi::StaticErrorQueue<4> }")
        out.append("    impl scpi::ErrorCommands for I {")
        out.append("        fn error_queue(&mut self) -> &mut impl scpi::ErrorQueue { &mut self.q }")
        out.append("    }")
    else:
        out.append("    pub struct I { }")
        out.append("    impl scpi::ErrorHandler for I { fn handle_error(&mut self, _e: Error) { } }")
    if "StandardCommands" in attrs:
        out.append("    impl scpi::StandardCommands for I {}")
    out.append("    #[scpi::interface(%s)]" % ', '.join(attrs))
    out.append("    impl I {")
    out.append("        pub fn helper_first(&self) -> u8 { 3 }")
    for i, c in enumerate(d["cmds"]):
        out.append(handler(i, c, plain=True))
    out.append("    }")
    out.append("}")
    return '\n'.join(out) + '\n'


def iface_module(d):
    """One Rust module for one interface description."""
    name = d["name"]
    attrs = d.get("attrs", [])
    K = d.get("K", 4)
    caps = d.get("caps", [])
    ns = d.get("ns", [])
    generic = (K == "generic")
    out = []
    out.append("#[allow(unused_imports, dead_code, clippy::all)]")
    out.append("pub mod %s {" % name)
    out.append("    use microscpi::{self as scpi, Error};")
    out.append("    use crate::rec::{self, ArgJ};")
    out.append(d.get("prelude", ""))
    life = d.get("lifetime", False)
    if life:
        # an interface type with a lifetime parameter (borrows something from its owner)
        out.append("    pub struct I<'d> { pub tag: &'d str }")
        out.append("    impl<'d> scpi::ErrorHandler for I<'d> {")
        out.append("        fn handle_error(&mut self, e: Error) { rec::log_err(e) }")
        out.append("    }")
        out.append("    #[scpi::interface(%s)]" % ', '.join(attrs))
        out.append("    impl<'d> I<'d> {")
        out.append("        pub fn tag_len(&self) -> usize { self.tag.len() }")
        for i, c in enumerate(d["cmds"]):
            out.append(handler(i, c))
        out.append("    }")
        out.append("    crate::impl_dut!(D, I<'static>, I { tag: \"tag\" }, [%s], [%s]);" % (
            ', '.join(map(str, caps)), ', '.join(map(str, ns))))
        out.append("}")
        return '\n'.join(out) + '\n'
    if "ErrorCommands" in attrs:
        if generic:
            out.append("    pub struct I<const K: usize> { pub q: rec::RecQueue<K> }")
            out.append("    impl<const K: usize> scpi::ErrorCommands for I<K> {")
        else:
            out.append("    pub struct I { pub q: rec::RecQueue<%d> }" % K)
            out.append("    impl scpi::ErrorCommands for I {")
        out.append("        fn error_queue(&mut self) -> &mut impl scpi::ErrorQueue { &mut self.q }")
        out.append("    }")
        new = "I { q: Default::default() }"
    else:
        out.append("    pub struct I { }")
        out.append("    impl scpi::ErrorHandler for I {")
        out.append("        fn handle_error(&mut self, e: Error) { rec::log_err(e) }")
        out.append("    }")
        new = "I { }"
    if "StandardCommands" in attrs:
        if generic:
            out.append("    impl<const K: usize> scpi::StandardCommands for I<K> {}")
        else:
            out.append("    impl scpi::StandardCommands for I {}")
    out.append("    #[scpi::interface(%s)]" % ', '.join(attrs))
    out.append("    impl%s I%s {" % (("<const K: usize>", "<K>") if generic else ("", "")))
    # items that are NOT commands live in the same impl block (constructor-like helper first, one in the middle)
    out.append("        pub const HELPER_CONST: u8 = 3;")
    out.append("        pub fn helper_first(&self) -> u8 { Self::HELPER_CONST }")
    for i, c in enumerate(d["cmds"]):
        out.append(handler(i, c))
        if i == len(d["cmds"]) // 2:
            out.append("        pub fn helper_middle(&mut self, x: u8) -> u8 { x.wrapping_add(self.helper_first()) }")
    out.append("    }")
    if generic:
        for k in d["Ks"]:
            out.append("    crate::impl_dut!(D%d, I<%d>, %s, [%s], [%s]);" % (
                k, k, new, ', '.join(map(str, caps)), ', '.join(map(str, ns))))
    else:
        out.append("    crate::impl_dut!(D, I, %s, [%s], [%s]);" % (
            new, ', '.join(map(str, caps)), ', '.join(map(str, ns))))
    out.append("}")
    return '\n'.join(out) + '\n'


# A HAND-WRITTEN Interface: two macro-generated command sets behind one instrument whose root_node() depends on its state
# (command 0 of the active set - MODE:B / MODE:A - switches to the other set once it has executed).
DYNROOT = '''
#[allow(unused_imports, dead_code, clippy::all)]
pub mod dynr {
    use microscpi::{self as scpi, Error, Interface};
    use crate::rec;
    pub struct I { pub a: super::moda::I, pub b: super::modb::I, pub in_b: bool }
    impl scpi::ErrorHandler for I {
        fn handle_error(&mut self, e: Error) { rec::log_err(e) }
    }
    impl Interface for I {
        fn root_node(&self) -> &'static scpi::Node {
            if self.in_b { self.b.root_node() } else { self.a.root_node() }
        }
        async fn execute_command<'a>(
            &'a mut self, id: scpi::CommandId, args: &[scpi::Value<'a>], response: &mut impl scpi::Write,
        ) -> Result<(), Error> {
            if self.in_b {
                let r = self.b.execute_command(id, args, response).await;
                if r.is_ok() && id == 0 { self.in_b = false; }
                r
            }
            else {
                let r = self.a.execute_command(id, args, response).await;
                if r.is_ok() && id == 0 { self.in_b = true; }
                r
            }
        }
    }
    crate::impl_dut!(D, I, I { a: super::moda::I { }, b: super::modb::I { }, in_b: false }, [64], [16, 32, 64]);
}
'''


def registry(descs):
    out = ["pub fn make(name: &str) -> Option<Box<dyn crate::dut::Dut>> {", "    match name {"]
    for d in descs:
        if d.get("K") == "generic":
            for k in d["Ks"]:
                out.append('        "%s%d" => Some(%s::D%d::boxed()),' % (d["name"], k, d["name"], k))
        else:
            out.append('        "%s" => Some(%s::D::boxed()),' % (d["name"], d["name"]))
    out.append("        _ => None,")
    out.append("    }")
    out.append("}")
    return '\n'.join(out) + '\n'


def write_gen(descs, path):
    src = "// GENERATED by bin/vlib/geniface.py - do not edit\n"
    for d in descs:
        src += iface_module(d)
    names = {d["name"] for d in descs}
    if {"moda", "modb"} <= names:
        src += DYNROOT
        src += registry(descs).replace("        _ => None,", '        "dynr" => Some(dynr::D::boxed()),\n        _ => None,')
    else:
        src += registry(descs)
    try:
        old = open(path).read()
    except OSError:
        old = None
    if old != src:
        with open(path, "w") as f:
            f.write(src)


if __name__ == "__main__":
    import sys
    descs = [json.load(open(p)) for p in sys.argv[2:]]
    write_gen(descs, sys.argv[1])
