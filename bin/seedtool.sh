#!/bin/bash
# seedtool.sh verify <wt> <id>     confirm a sub-agent's mutation (suite green, demo fails with / passes without), store it
# seedtool.sh try <id> <check...>  apply seeded/<id>/patch.diff to /repo, run the checks (quick), undo
set -u
cmd=$1; shift
case $cmd in
verify)
  wt=$1; id=$2; out=/verif/seeded/$id
  export CARGO_TARGET_DIR=$wt/target
  cd $wt || exit 2
  git stash -q 2>/dev/null; git stash drop -q 2>/dev/null   # make sure tree = HEAD, then apply only the patch
  git checkout -q -- . ; rm -f microscpi/tests/demo.rs
  git apply OUT/patch.diff || { echo "patch does not apply"; exit 1; }
  echo "== suite with change"; cargo test --workspace --offline 2>&1 | grep -E "^test result|FAILED|^error" | head -8
  cp OUT/demo.rs microscpi/tests/demo.rs
  echo "== demo with change (must fail)"; cargo test -p microscpi --features std --offline --test demo 2>&1 | grep -E "^test result|^test .* (ok|FAILED)" | head -12
  git apply -R OUT/patch.diff
  echo "== demo without change (must pass)"; cargo test -p microscpi --features std --offline --test demo 2>&1 | grep -E "^test result|^test .* (ok|FAILED)" | head -12
  rm -f microscpi/tests/demo.rs
  mkdir -p $out && cp OUT/patch.diff OUT/demo.rs $out/ && cp OUT/meta.json $out/meta.agent.json
  ;;
try)
  id=$1; shift
  cd /repo && git apply /verif/seeded/$id/patch.diff || { echo "patch does not apply to /repo"; exit 2; }
  for c in "$@"; do
    echo "== $c against $id"; (cd /verif && python3 bin/check $c --tier quick 2>&1 | grep -E "^VIOLATION|^KNOWN|TOOL-ERROR|violations" | head -6)
  done
  git -C /repo checkout -- . ; git -C /repo status --short
  ;;
esac
