#!/usr/bin/env python3
"""Writes /verif/MANIFEST.json from the table below (kept next to the checks so that
the two cannot drift apart)."""
import json
import os

VERIF = os.path.dirname(os.path.dirname(os.path.abspath(__file__)))
ALL = ["C%02d" % i for i in range(1, 15)]

CLAIMS = {
    "C02": dict(
        category="model_checking",
        text="TLC checks exhaustively, for every history of <=2 messages x <=3 units over a 16-unit vocabulary (relative, absolute, "
             "common, undefined, slot-empty and faulty units, trailing ';', empty messages), that the implementation-shaped run loop "
             "(ScpiRun!ImplRun) refines the abstract per-message meaning, that the last message's events are independent of the history "
             "and that the path is the root after every terminator; every enumerated history and seeded long sessions are then executed "
             "on the real code (one run buffer, one run per message, process whole and byte-wise) and every recorded event is validated "
             "against the abstract relation by the trace specification TraceScpi under TLC.",
        design_ref="DESIGN.md section 4 C02",
        note="Exhaustive only inside the bounds; beyond them seeded sampling. Trusts TLC, the recording doubles of the harness and "
             "that handlers of the generated `main` interface behave as declared in spec/ifaces/main.json.",
        technique="TLA+ refinement check (TLC) + trace validation of the real code's executions against the TLA+ spec"),
}

NOT_YET = "check not built yet (work in progress)"


def main():
    checks = []
    for p in ALL:
        if p not in CLAIMS:
            continue
        c = CLAIMS[p]
        checks.append({
            "property_id": p,
            "quick_cmd": "python3 bin/check %s --tier quick" % p,
            "thorough_cmd": "python3 bin/check %s --tier thorough" % p,
            "evidence_file": "/verif/evidence/%s.json" % p,
            "replay_cmd_template": "python3 bin/check replay {path}",
            "engine": "tlc+conf",
            "level_claimed": {"category": c["category"], "text": c["text"], "design_ref": c["design_ref"]},
            "level_note": c["note"],
            "technique": c["technique"],
        })
    m = {
        "version": 1,
        "setup_cmd": "python3 bin/check setup",
        "hooks": {
            "guard": "microscpi_verif",
            "enable": "harness/.cargo/config.toml passes --cfg microscpi_verif; no hook inside the library is needed, every "
                      "property is observed at the public API",
            "baseline_off_cmd": "cd /repo && cargo test --workspace --no-fail-fast --offline",
            "source_commits": [],
            "add_only": True,
        },
        "engines": [
            {"name": "tlc+conf", "path": "/verif/bin/check", "serves_properties": sorted(CLAIMS),
             "kind_free_text": "explicit TLA+ specification (spec/*.tla) model-checked with TLC and bound to the code by the Rust "
                               "conformance harness (harness/conf): TLC-generated behaviours replayed into the real code, and "
                               "recorded executions validated against the trace specifications under TLC"},
        ],
        "checks": checks,
        "not_applicable": [{"property_id": p, "reason": NOT_YET} for p in ALL if p not in CLAIMS],
        "notes": "Repaired defects and known findings: /verif/known_findings.json; design: /verif/DESIGN.md",
    }
    with open(os.path.join(VERIF, "MANIFEST.json"), "w") as f:
        json.dump(m, f, indent=1)


if __name__ == "__main__":
    main()
