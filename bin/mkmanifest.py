#!/usr/bin/env python3
"""Writes /verif/MANIFEST.json from the table below (kept next to the checks so that
the two cannot drift apart)."""
import json
import os

VERIF = os.path.dirname(os.path.dirname(os.path.abspath(__file__)))
ALL = ["C%02d" % i for i in range(1, 15)]

TV = "TLA+ model checking (TLC) + trace validation of the real code's executions against the TLA+ trace specification"
TRUST = ("Exhaustive only inside the stated bounds; beyond them seeded sampling. Trusts TLC, the recording doubles of the harness "
         "(harness/conf/src/rec.rs) and that the handlers of the generated interfaces behave as declared in spec/ifaces/*.json.")

CLAIMS = {
    "C01": dict(
        category="model_checking",
        text="TLC classifies every set of <=2 (thorough: 3) declarations from a pool covering depth 1..3, optional parts anywhere, short=long, "
             "non-prefix short forms, digits/underscores, common commands, command+query on one node and all attribute combinations, and checks "
             "that the macro-shaped trie resolves every spelled header and every near miss exactly as the abstract short/long spelling rule does "
             "(MCScpiTree!TreeOk). A seeded sample of the collision-free sets is compiled through the real macro (sync and async handlers) and "
             "every spelling and near miss (abbreviation between short and long, extra/missing/replaced level, wrong kind, three letter cases) "
             "is run through Interface::run; each recorded outcome (one call, or no call and exactly one -113) is validated by TraceScpi.",
        design_ref="DESIGN.md section 4 C01", note=TRUST, technique=TV),
    "C02": dict(
        category="model_checking",
        text="TLC checks exhaustively, for every history of <=2 messages x <=3 units over a 16-unit vocabulary (relative, absolute, "
             "common, undefined, slot-empty and faulty units, trailing ';', empty messages), that the implementation-shaped run loop "
             "(ScpiRun!ImplRun) refines the abstract per-message meaning, that the last message's events are independent of the history "
             "and that the path is the root after every terminator; every enumerated history and seeded long sessions are then executed "
             "on the real code (one run buffer, one run per message, process whole and byte-wise) and every recorded event is validated "
             "against the abstract relation by the trace specification TraceScpi under TLC.",
        design_ref="DESIGN.md section 4 C02", note=TRUST, technique=TV),
    "C03": dict(
        category="model_checking",
        text="MCScpiValues checks for every short literal over three alphabets and all 15 parameter types that the conversion the code performs "
             "(ImplConv, mirroring value.rs) is among the outcomes the property allows (AllowedConv), that no allowed delivery is out of range, that "
             "core's from_str_radix algorithm transcribed on miniature widths accepts exactly the plain in-range literals with their exact value, and "
             "that the digit-sequence arithmetic used for 64-bit bounds equals integer arithmetic. On the real code ~12k messages (bounds of every "
             "integer type in four radices, 13 decimal spellings, all short literals, every data kind into every type, the 0..12 x 0..10 parameter-count "
             "matrix, an unfit literal at every position, numeric fields of up to 70 digits, literals next to float midpoints) are run through "
             "macro-generated handlers, and ~9k conversions through TryInto called directly (by value and by reference); each recorded outcome is validated "
             "by TraceScpi; float literals are additionally checked bit-exactly.",
        design_ref="DESIGN.md section 4 C03",
        note=TRUST + " Binary floating point is outside TLC's reach: for f32/f64 the TLA+ spec decides kind, arity and error class, while the bit "
             "pattern is decided by exact rational arithmetic in bin/vlib/floats.py (independent of Rust's dec2flt).",
        technique=TV),
    "C04": dict(
        category="model_checking",
        text="MCScpiResponse checks Decodes(Encode(v), v) and injectivity (no other value of the same shape decodes from the same bytes) over a "
             "universe of integers, booleans, strings with quotes/commas/newlines, blocks and tuples; the pre-repair quoting is a failing negative "
             "control. On the real code every response type (all integer widths at their extremes, strings in &str/heapless::String/String, character "
             "data, blocks at length-digit boundaries, tuples of 2-4, slices, heapless::Vec, nested, Error values, unit) is produced by generated query "
             "handlers through the pass-through writer, std Vec, heapless::Vec of three capacities and process; TraceScpi requires exactly one response "
             "that decodes to the returned value, then NL and flush, in execution order, identical bytes for every writer with room, and no output for "
             "commands, failed queries and undefined headers. f32/f64 responses (special values, powers of two, seeded random bit patterns) are decoded "
             "bit-exactly.",
        design_ref="DESIGN.md section 4 C04",
        note=TRUST + " For floats the TLA+ spec pins only the syntax; the bit-exact decode is exact rational arithmetic in bin/vlib/floats.py.",
        technique=TV),
    "C05": dict(
        category="model_checking",
        text="MCScpiProcess checks the offset invariant 0<=proc<=rd<=rend<=N and that a read is always offered space, for every chunking and "
             "content within the bounds, and - under weak fairness of process's own steps - the liveness property Progress (process always comes back "
             "to a read: no loop without consuming input; a spinning mutant is the failing negative control). Every byte string over the 18-symbol class alphabet up to L, seeded message sequences and seeded "
             "random/mutated inputs over all byte values are run through run() with up to 77 writers (heapless::Vec of every capacity 0..=64, std, "
             "pass-through with and without a bound) and through process::<N> for N drawn from 1..=64, 128, 1024 under whole/byte-wise/seeded schedules; TraceScpi's monitors reject any "
             "panic, non-suffix remainder, empty read buffer or missing return, a watchdog catches calls that do not return.",
        design_ref="DESIGN.md section 4 C05",
        note=TRUST + " Coverage-guided fuzzing (named in the property's quantifier) is outside this technique family and not used.",
        technique=TV),
    "C06": dict(
        category="model_checking",
        text="TLC checks for every history over a vocabulary with all five fault kinds at every position that the implementation-shaped run "
             "loop reports exactly one error per faulty unit, does not invoke its handler (unless the fault is the handler's own), executes "
             "all-or-none of the following units and leaves later messages unaffected (Refines, HistoryIndep); all histories and seeded long "
             "faulty sessions are executed as one run buffer and through process (single read, byte-wise, message-wise) and validated by TraceScpi.",
        design_ref="DESIGN.md section 4 C06", note=TRUST, technique=TV),
    "C07": dict(
        category="model_checking",
        text="MCScpiProcess: the implementation-shaped process loop runs in lock-step with the byte-at-a-time ideal for every chunk size "
             "(0..free space) and content at every read (N<=6, stream<=8 thorough): same events, same carried-over tail and path. On the real "
             "code every stream over a 9-symbol alphabet up to L is delivered under EVERY composition into reads and 4 buffer sizes, message "
             "streams under seeded schedules (single bytes, empty reads, exact fill, suspended transport/handler futures); TraceScpi requires "
             "identical calls/errors/response bytes for all schedules of a stream, equality with run-per-message when messages fit, and "
             "acceptance by the stream semantics ProcAccepts. Every recorded session is also compared step by step with the "
             "implementation-shaped loop as a function of its reads (ScpiProcessImpl: room offered per read, calls/errors, one write+flush per "
             "answered run_from; mismatch = IMPL-DRIFT note). A hand-written Interface whose root_node() changes at run time is judged "
             "differentially (procdiff: all schedules and run-one-at-a-time agree).",
        design_ref="DESIGN.md section 4 C07", note=TRUST, technique=TV),
    "C08": dict(
        category="model_checking",
        text="MCScpiSyntax checks as an action property that inside string/block payloads no byte but the own closing quote / the last "
             "counted byte leaves the payload and every byte is stored verbatim. Strings and blocks over separator/quote/newline/non-ASCII "
             "alphabets (exhaustive to length L, seeded longer ones over all byte values) are placed at argument index 1..3 and unit index "
             "1..2 of compound messages that continue with a relative header, run whole and through process under every split point; "
             "TraceScpi requires verbatim delivery, no error, and the same units executed as without the embedded newline.",
        design_ref="DESIGN.md section 4 C08", note=TRUST, technique=TV),
    "C09": dict(
        category="model_checking",
        text="MCErrorQueue checks the queue as a state machine for K=1..4: bounded, a push with room appends exactly the error, a push on a full "
             "queue replaces exactly the newest entry by -350 (older entries intact), a pop removes exactly the oldest; two mutants (drop oldest, drop "
             "new silently) are failing negative controls; TLAPS proves the same step properties and the bound for ARBITRARY capacity and error set "
             "(spec/proofs/ErrorQueueProof.tla, 74 obligations, re-proved on every run). MCScpiRun checks end to end, for interfaces of capacity K, every grouping of faults, custom "
             "errors, NEXT?/COUNt? queries and commands into messages. On the real code every operation sequence of depth D on StaticErrorQueue<K> "
             "directly (count observed after every step, queue drained at the end), seeded sequences incl. K=10, all enumerated histories and seeded "
             "sessions (one buffer, per message, through process) are validated by TraceScpi: NEXT? answers number,\"description\" of the oldest entry "
             "(0,\"\" when empty), COUNt? the number of entries; number(), Into<&str>, Display and the Response impl of all 59 standard errors "
             "must agree with the table ScpiErrors.",
        design_ref="DESIGN.md section 4 C09", note=TRUST, technique=TV),
    "C10": dict(
        category="model_checking",
        text="MCScpiProcess (with the EnvFail action) checks Answered (nothing owed and res_buf empty at every read) and DoneIsError. On the "
             "real code each session is run fault-free and once per position of its read/write/flush call sequence with a unique error "
             "injected there; TraceScpi requires: all responses of completed messages written and flushed before the next read, nothing but "
             "responses written, process returns exactly the injected error with no further transport call, and the trace before the fault "
             "equals the fault-free one. Block uploads of 65535..100000 bytes through process::<131072> (whole, in 1460-byte reads, split "
             "at 65536) are judged differentially (record kind procdiff: monitors, end conditions, schedule independence, expected answer). "
             "Every fault-free session is also compared step by step with the implementation-shaped loop (ScpiProcessImpl; mismatch = "
             "IMPL-DRIFT note, not a violation).",
        design_ref="DESIGN.md section 4 C10", note=TRUST, technique=TV),
    "C11": dict(
        category="model_checking",
        text="MCScpiSyntax checks that each of the 32 white-space bytes is a no-op in every gap phase of the scanner and starts a gap "
             "uniformly. On the real code base messages are re-rendered with each single gap x each white-space byte, all case and "
             "short/long combinations, CR LF and seeded combinations; TraceScpi requires every variant to be accepted and to equal the base "
             "on handlers, arguments, errors and output.",
        design_ref="DESIGN.md section 4 C11", note=TRUST, technique=TV),
    "C12": dict(
        category="model_checking",
        text="MCScpiSyntax drives the unit scanner one byte per action, so prefix/extension pairs are edges: VerdictFinal, ConsumesOne, "
             "OnlineIsBatch, IncompleteOnlyInside are checked on every edge. Every string over five alphabets (header classes, decimal, "
             "radix/block, string, parameter count around MAX_ARGS) up to L is printed with the pinned verdict (class, consumed length, "
             "query/terminator flags, tokens, node and parent) from the root and three inner start nodes, and the real parser::parse is "
             "compared on each (614k cases quick, 22.7M thorough). MCScpiParseImpl additionally checks that the implementation-shaped parser "
             "(ScpiParseImpl, a combinator-by-combinator transcription of parser.rs) returns a verdict the grammar pins on every enumerated string; the "
             "pre-repair ordered choice is its failing negative control.",
        design_ref="DESIGN.md section 4 C12", note=TRUST,
        technique="TLA+ model checking (TLC) + replay of every TLC-enumerated input with its specified verdict into the real parser"),
    "C13": dict(
        category="exploration",
        text="Run-time half: every record of every trace carries the number of heap allocations made while library code ran (counting global "
             "allocator, paused inside the harness's own doubles) and the trace specification's monitors require 0 for all fixed-capacity writers and "
             "for process; this check drives ~2.7k multi-configuration cases (message sequences, every literal class, every response-table entry, float "
             "bit patterns, error-queue sessions, random bytes) through run() into heapless::Vec / bounded writers and through process::<N>. Build half: a "
             "#![no_std], allocator-less staticlib that instantiates an interface through the macro against microscpi with default features must build "
             "(it fails with 'no global memory allocator found' as soon as anything needs alloc - verified once by hand), and cargo build -p microscpi.",
        design_ref="DESIGN.md sections 4 C13, 5, 10.6",
        note="The allocation monitor is a conjunct of TraceScpi (so it also runs inside every other check); the build half is decided by the compiler, "
             "TLA+ contributes nothing to it. Seeded sampling, not exhaustive.",
        technique="allocation-count monitor in the TLA+ trace specification over recorded executions + no_std/no-alloc build probe"),
    "C14": dict(
        category="model_checking",
        text="MCScpiTree checks for every enumerated declaration set that macro-shaped trie insertion fails exactly when two handlers share "
             "a spelling of the same kind (identical, short-equals-long, optional-induced, case-only), including that a declaration's own "
             "coinciding expansions are not a collision. A seeded sample of ambiguous sets is put through the real macro in a generated crate "
             "(every module must be rejected, matched by diagnostic line, in the release AND the dev profile), and each one's collision-free twin plus a sample of unambiguous "
             "sets must compile (and dispatch correctly).",
        design_ref="DESIGN.md section 4 C14",
        note=TRUST + " The observable is the compiler's exit status / diagnostics; TLC decides which sets must and must not build.",
        technique="TLA+ model checking (TLC) of the insertion/ambiguity equivalence + compile outcome of TLC-selected sets through the real macro"),
}

NOT_YET = "check not built yet (work in progress)"


def main():
    checks = []
    for p in ALL:
        if p not in CLAIMS:
            continue
        c = CLAIMS[p]
        checks.append({
            "property_id": p,
            "quick_cmd": "python3 bin/check %s --tier quick" % p,
            "thorough_cmd": "python3 bin/check %s --tier thorough" % p,
            "evidence_file": "/verif/evidence/%s.json" % p,
            "replay_cmd_template": "python3 bin/check replay {path}",
            "engine": "tlc+conf",
            "level_claimed": {"category": c["category"], "text": c["text"], "design_ref": c["design_ref"]},
            "level_note": c["note"],
            "technique": c["technique"],
        })
    m = {
        "version": 1,
        "setup_cmd": "python3 bin/check setup",
        "hooks": {
            "guard": "microscpi_verif",
            "enable": "harness/.cargo/config.toml passes --cfg microscpi_verif; no hook inside the library is needed, every "
                      "property is observed at the public API",
            "baseline_off_cmd": "cd /repo && cargo test --workspace --no-fail-fast --offline",
            "source_commits": [],
            "add_only": True,
        },
        "engines": [
            {"name": "tlc+conf", "path": "/verif/bin/check", "serves_properties": sorted(CLAIMS),
             "kind_free_text": "explicit TLA+ specification (spec/*.tla) model-checked with TLC and bound to the code by the Rust "
                               "conformance harness (harness/conf): TLC-generated behaviours replayed into the real code, and "
                               "recorded executions validated against the trace specifications under TLC"},
        ],
        "checks": checks,
        "not_applicable": [{"property_id": p, "reason": NOT_YET} for p in ALL if p not in CLAIMS],
        "notes": "Repaired defects and known findings: /verif/known_findings.json; design: /verif/DESIGN.md",
    }
    with open(os.path.join(VERIF, "MANIFEST.json"), "w") as f:
        json.dump(m, f, indent=1)


if __name__ == "__main__":
    main()
