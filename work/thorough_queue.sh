#!/bin/bash
cd /verif
for c in C10 C11 C13 C01 C14 C06 C09; do
  python3 bin/check $c --tier thorough 2>&1 | grep -E "^VIOLATION|^KNOWN|TOOL|violations" | cut -c1-250
done
