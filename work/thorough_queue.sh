#!/bin/bash
# runs in the live /verif (evidence must come from here): do not edit bin/ or spec/ while it runs
cd /verif
for c in "$@"; do
  python3 bin/check $c --tier thorough 2>&1 | grep -E "^VIOLATION|^KNOWN|TOOL|violations|^note" | cut -c1-250
done
echo QUEUE-DONE
