#!/usr/bin/env python3
"""mkagent.py <id>  -> work/agent_<id>.txt + a scratch worktree /tmp/wt_<id>"""
import glob, json, os, subprocess, sys
sid = sys.argv[1]; prop = sid[:3]
props = {json.loads(l)["id"]: json.loads(l) for l in open("/verif/properties.jsonl")}
p = props[prop]
tmpl = open("/verif/work/agent_C10g.txt").read()
head, rest = tmpl.split("PROPERTY C10:", 1)
_, tail = rest.split("YOUR TASK:", 1)
tail, deliver = tail.split("Earlier seeded changes for this property must not be repeated:", 1)
_, deliver = deliver.split("DELIVERABLES", 1)
earlier = []
for m in sorted(glob.glob("/verif/seeded/%s*/meta.json" % prop)):
    earlier.append(json.load(open(m))["summary"][:260])
txt = head + "PROPERTY %s: %s\n%s\nScope: %s\n\nYOUR TASK:" % (prop, p.get("title", ""), p.get("statement", p.get("description", "")), p.get("quantifier", {}).get("text", ""))
txt += tail + "Earlier seeded changes for this property must not be repeated: " + " ".join("(%d) %s" % (i + 1, e) for i, e in enumerate(earlier))
txt += "\n\nDELIVERABLES" + deliver
txt = txt.replace("C10g", sid).replace('"property": "C10"', '"property": "%s"' % prop)
open("/verif/work/agent_%s.txt" % sid, "w").write(txt)
wt = "/tmp/wt_" + sid
if not os.path.exists(wt):
    subprocess.check_call(["git", "-C", "/repo", "worktree", "add", "--detach", "-q", wt, "HEAD"])
print(wt)
